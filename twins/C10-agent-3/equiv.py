"""Equivalence script for the C10 refactoring twin (first_order_logic.py helpers +
IfThenElse). Prints a canonical description of the outcome of several small problems.
Run from the worktree root:  cd /tmp/t4_C10 && /venv/bin/python _twin/equiv.py
"""
import contextlib
import io
import os
import re
import sys

sys.path.insert(0, os.getcwd())

import z3  # noqa: E402

import processscheduler as ps  # noqa: E402
import processscheduler.first_order_logic as fol  # noqa: E402

assert os.path.dirname(os.path.abspath(ps.__file__)).startswith(os.getcwd()), ps.__file__


def mask(text):
    """mask random parts of names (uuid ints, 8 digit prefixes, hex ids)"""
    text = re.sub(r"asst_[0-9a-f]{8}", "asst_<HEX>", str(text))
    text = re.sub(r"\d{8,}", "<UID>", text)
    return re.sub(r"\s+", " ", text)


def describe(title, problem, debug=False):
    print(f"=== {title}")
    # 1. every constraint as stored in the problem, in creation order
    for idx, cstr in enumerate(problem.constraints.values()):
        print(
            f"  constraint#{idx} {type(cstr).__name__} name={mask(cstr.name)}"
            f" optional={cstr.optional} from_assertion={cstr._created_from_assertion}"
            f" applied={mask(cstr._applied)}"
        )
        for asst in cstr.get_z3_assertions():
            print(f"      asst: {mask(asst)}")
    # 2. what is sent to the solver
    solver = ps.SchedulingSolver(problem=problem, debug=debug)
    sink = io.StringIO()
    with contextlib.redirect_stdout(sink):
        solver.initialize()
    solver_assts = sorted(mask(a) for a in solver._solver.assertions())
    print(f"  solver assertions ({len(solver_assts)}):")
    for asst in solver_assts:
        print(f"      {asst}")
    # 3. the outcome
    with contextlib.redirect_stdout(sink):
        solution = solver.solve()
    if not solution:
        print("  solution: NONE")
    else:
        for name in sorted(solution.tasks):
            tsk = solution.tasks[name]
            print(
                f"  task {name}: scheduled={tsk.scheduled} start={tsk.start} end={tsk.end}"
            )
        # which optional constraints were applied
        for cstr in problem.constraints.values():
            if cstr.optional:
                val = solver._solver.model().eval(cstr._applied, model_completion=True)
                print(f"  applied[{mask(cstr.name)}] = {val}")


def guarded(title, fct):
    try:
        fct()
    except Exception as exc:  # noqa: BLE001
        print(f"=== {title}")
        print(f"  ERROR {type(exc).__name__}: {mask(exc)[:400]}")


# ---------------------------------------------------------------------------
def case_not_and():
    pb = ps.SchedulingProblem(name="NotAnd", horizon=10)
    t1 = ps.FixedDurationTask(name="t1", duration=2)
    t2 = ps.FixedDurationTask(name="t2", duration=3)
    t3 = ps.ZeroDurationTask(name="t3")
    ps.Not(constraint=ps.TaskStartAt(task=t1, value=0))
    ps.Not(constraint=t2._start == 0)
    ps.And(
        list_of_constraints=[
            ps.TaskStartAt(task=t1, value=1),
            t2._start == 4,
            ps.TaskPrecedence(task_before=t1, task_after=t2),
            ps.TaskEndAt(task=t3, value=0),
            t3._start >= 0,
        ]
    )
    # an empty conjunction
    ps.And(list_of_constraints=[])
    describe("case 1: Not / And with mixed operands and an empty And", pb)


def case_implies():
    pb = ps.SchedulingProblem(name="Implies", horizon=12)
    t1 = ps.FixedDurationTask(name="t1", duration=2)
    t2 = ps.FixedDurationTask(name="t2", duration=2)
    t3 = ps.FixedDurationTask(name="t3", duration=1)
    ps.TaskStartAt(task=t1, value=3)
    ps.Implies(
        condition=t1._start == 3,
        list_of_constraints=[ps.TaskStartAt(task=t2, value=7), t3._start == 0],
    )
    ps.Implies(condition=True, list_of_constraints=[ps.TaskEndAt(task=t3, value=1)])
    ps.Implies(condition=False, list_of_constraints=[ps.TaskStartAt(task=t2, value=0)])
    ps.Implies(condition=t1._start > 100, list_of_constraints=[])
    describe("case 2: Implies with BoolRef / True / False conditions, empty consequent", pb)


def case_ite_basic():
    for start_value in (0, 1):
        pb = ps.SchedulingProblem(name=f"Ite{start_value}", horizon=9)
        t1 = ps.FixedDurationTask(name="t1", duration=2)
        t2 = ps.FixedDurationTask(name="t2", duration=2)
        t3 = ps.FixedDurationTask(name="t3", duration=2)
        ps.TaskStartAt(task=t1, value=start_value)
        ps.IfThenElse(
            condition=t1._start == 0,
            then_list_of_constraints=[
                ps.TaskStartAt(task=t2, value=4),
                t3._start == 6,
            ],
            else_list_of_constraints=[
                t2._start == 7,
                ps.TaskStartAt(task=t3, value=3),
                ps.TaskPrecedence(task_before=t1, task_after=t3, offset=0),
            ],
        )
        describe(f"case 3.{start_value}: IfThenElse, both branches, t1 starts at {start_value}", pb)


def case_ite_edge():
    pb = ps.SchedulingProblem(name="IteEdge", horizon=6)
    t1 = ps.FixedDurationTask(name="t1", duration=1)
    t2 = ps.FixedDurationTask(name="t2", duration=1)
    # python bool conditions and empty branches
    ps.IfThenElse(
        condition=True,
        then_list_of_constraints=[ps.TaskStartAt(task=t1, value=2)],
        else_list_of_constraints=[],
    )
    ps.IfThenElse(
        condition=False,
        then_list_of_constraints=[],
        else_list_of_constraints=[t2._start == 5],
    )
    ps.IfThenElse(
        condition=t1._start == 2,
        then_list_of_constraints=[],
        else_list_of_constraints=[],
    )
    describe("case 4: IfThenElse with python bool conditions and empty branches", pb)


def case_nested():
    pb = ps.SchedulingProblem(name="Nested", horizon=20)
    t1 = ps.FixedDurationTask(name="t1", duration=2)
    t2 = ps.FixedDurationTask(name="t2", duration=2)
    t3 = ps.VariableDurationTask(name="t3", min_duration=0, max_duration=4)
    inner_not = ps.Not(constraint=ps.TaskStartAt(task=t2, value=0))
    inner_and = ps.And(list_of_constraints=[inner_not, ps.TaskStartAfter(task=t2, value=5)])
    inner_xor = ps.Xor(
        constraint_1=ps.TaskStartAt(task=t3, value=0),
        constraint_2=t3._start == 10,
    )
    ps.IfThenElse(
        condition=z3.And(t1._start >= 0, t1._start < 3),
        then_list_of_constraints=[inner_and, inner_xor],
        else_list_of_constraints=[
            ps.Or(list_of_constraints=[t2._start == 1, ps.TaskStartAt(task=t2, value=2)]),
            ps.Implies(condition=t3._duration == 0, list_of_constraints=[t3._start == 0]),
        ],
    )
    ps.TaskStartAt(task=t1, value=1)
    ps.ConstraintFromExpression(expression=t3._duration == 0)
    ps.ConstraintFromExpression(expression=t2._start + t3._start <= 16)
    describe("case 5: nested IfThenElse(And(Not), Xor | Or, Implies) + user expressions", pb)


def case_optional():
    pb = ps.SchedulingProblem(name="Optional", horizon=10)
    t1 = ps.FixedDurationTask(name="t1", duration=2)
    t2 = ps.FixedDurationTask(name="t2", duration=2)
    t3 = ps.FixedDurationTask(name="t3", duration=2, optional=True)
    ite = ps.IfThenElse(
        name="opt_ite",
        condition=t1._start == 0,
        then_list_of_constraints=[ps.TaskStartAt(task=t2, value=8), t3._scheduled],
        else_list_of_constraints=[ps.TaskStartAt(task=t2, value=0)],
        optional=True,
    )
    imp = ps.Implies(
        name="opt_imp",
        condition=t2._start == 8,
        list_of_constraints=[
            ps.TaskStartAt(name="opt_operand", task=t3, value=4, optional=True),
            t3._scheduled,
        ],
        optional=True,
    )
    conj = ps.And(
        name="opt_and",
        list_of_constraints=[ps.TaskStartAt(task=t1, value=5)],
        optional=True,
    )
    ps.TaskStartAt(task=t1, value=0)
    ps.ForceApplyNOptionalConstraints(
        list_of_optional_constraints=[ite, imp, conj],
        nb_constraints_to_apply=2,
        kind="exact",
    )
    describe("case 6: optional IfThenElse / Implies / And + ForceApplyN exact 2", pb)


def case_optional_min_max():
    for kind, nb in (("min", 1), ("max", 1)):
        pb = ps.SchedulingProblem(name=f"OptMinMax_{kind}", horizon=6)
        t1 = ps.FixedDurationTask(name="t1", duration=3)
        ite_a = ps.IfThenElse(
            name="ite_a",
            condition=t1._end <= 3,
            then_list_of_constraints=[t1._start == 0],
            else_list_of_constraints=[ps.TaskEndAt(task=t1, value=6)],
            optional=True,
        )
        ite_b = ps.IfThenElse(
            name="ite_b",
            condition=t1._start == 0,
            then_list_of_constraints=[ps.TaskStartAt(task=t1, value=3)],
            else_list_of_constraints=[ps.TaskStartAt(task=t1, value=0)],
            optional=True,
        )
        ps.ForceApplyNOptionalConstraints(
            list_of_optional_constraints=[ite_a, ite_b],
            nb_constraints_to_apply=nb,
            kind=kind,
        )
        describe(f"case 7.{kind}: two optional IfThenElse (one contradictory), {kind} {nb}", pb)


def case_unsat_and_debug():
    pb = ps.SchedulingProblem(name="Unsat", horizon=5)
    t1 = ps.FixedDurationTask(name="t1", duration=2)
    ps.IfThenElse(
        condition=t1._start >= 0,
        then_list_of_constraints=[ps.TaskStartAt(task=t1, value=4)],
        else_list_of_constraints=[ps.TaskStartAt(task=t1, value=0)],
    )
    describe("case 8a: IfThenElse forcing an infeasible branch", pb)

    pb = ps.SchedulingProblem(name="Debug", horizon=5)
    t1 = ps.FixedDurationTask(name="t1", duration=2)
    ps.IfThenElse(
        condition=t1._start == 0,
        then_list_of_constraints=[ps.TaskStartAt(task=t1, value=0), t1._end == 2],
        else_list_of_constraints=[t1._start == 3],
    )
    describe("case 8b: same kind of problem, solver in debug mode", pb, debug=True)
    z3.set_option(unsat_core=False)


def case_errors():
    def bad_operand_ite():
        ps.SchedulingProblem(name="Err1", horizon=5)
        ps.IfThenElse(
            condition=True,
            then_list_of_constraints=[3],
            else_list_of_constraints=[],
        )

    def bad_operand_implies():
        ps.SchedulingProblem(name="Err2", horizon=5)
        ps.Implies(condition=True, list_of_constraints=["a string"])

    def missing_branch():
        ps.SchedulingProblem(name="Err3", horizon=5)
        ps.IfThenElse(condition=True, then_list_of_constraints=[])

    def duplicate_name():
        ps.SchedulingProblem(name="Err4", horizon=5)
        t = ps.FixedDurationTask(name="t", duration=1)
        ps.IfThenElse(
            name="dup",
            condition=True,
            then_list_of_constraints=[t._start == 0],
            else_list_of_constraints=[],
        )
        ps.IfThenElse(
            name="dup",
            condition=True,
            then_list_of_constraints=[t._start == 1],
            else_list_of_constraints=[],
        )

    guarded("case 9a: int operand in IfThenElse", bad_operand_ite)
    guarded("case 9b: str operand in Implies", bad_operand_implies)
    guarded("case 9c: IfThenElse without else list", missing_branch)
    guarded("case 9d: duplicate constraint name", duplicate_name)


def case_helpers_direct():
    """call the private helpers directly, with inputs the classes never pass"""
    print("=== case 10: private helpers called directly")
    ps.SchedulingProblem(name="Helpers", horizon=10)
    t1 = ps.FixedDurationTask(name="t1", duration=2)
    t2 = ps.FixedDurationTask(name="t2", duration=2)
    c1 = ps.TaskStartAt(task=t1, value=0)
    c2 = ps.TaskPrecedence(task_before=t1, task_after=t2)
    c3 = ps.TaskStartAt(task=t2, value=5, optional=True)
    expr = t1._end <= 9

    got = fol._get_assertions(expr)
    print("  _get_assertions(BoolRef):", type(got).__name__, mask(got), got is expr)
    print("  flags before:", c1._created_from_assertion, c2._created_from_assertion)
    got = fol._get_assertions(c1)
    print(
        "  _get_assertions(Constraint):",
        type(got).__name__,
        [mask(a) for a in got],
        got is c1.get_z3_assertions(),
        c1._created_from_assertion,
    )
    for label, arg in (
        ("list", [c1, expr, c2, c3]),
        ("tuple", (expr, c2)),
        ("generator", (x for x in [c3, expr, expr])),
        ("empty", []),
        ("same twice", [c1, c1]),
    ):
        res = fol._constraints_to_list_of_assertions(arg)
        print(f"  to_list({label}):", type(res).__name__, [mask(a) for a in res])
    print("  flags after:", c1._created_from_assertion, c2._created_from_assertion, c3._created_from_assertion)
    # the returned list is a fresh one, not the live list of the constraint
    res = fol._constraints_to_list_of_assertions([c1])
    print("  fresh list:", res is not c1.get_z3_assertions(), res == c1.get_z3_assertions())

    class Odd:
        """an object whose assertions are neither a list nor a BoolRef"""

        def __init__(self, value):
            self.value = value
            self.tagged = 0

        def set_created_from_assertion(self):
            self.tagged += 1

        def get_z3_assertions(self):
            return self.value

    odd_tuple, odd_none, odd_bool = Odd((expr,)), Odd(None), Odd(expr)
    res = fol._constraints_to_list_of_assertions([odd_tuple, c2, odd_none, odd_bool])
    print("  to_list(odd objects):", [mask(a) for a in res], odd_tuple.tagged, odd_none.tagged, odd_bool.tagged)

    # an error in the middle: operands before it are already tagged, those after are not
    c4 = ps.TaskStartAt(task=t1, value=1)
    c5 = ps.TaskStartAt(task=t1, value=2)
    for bad in (True, 3, None, "txt"):
        try:
            fol._constraints_to_list_of_assertions([c4, bad, c5])
            print("  no error for", repr(bad))
        except Exception as exc:  # noqa: BLE001
            print(f"  to_list([c4, {bad!r}, c5]): {type(exc).__name__}: {mask(exc)}")
    print("  flags:", c4._created_from_assertion, c5._created_from_assertion)
    try:
        fol._constraints_to_list_of_assertions(None)
    except Exception as exc:  # noqa: BLE001
        print(f"  to_list(None): {type(exc).__name__}: {mask(exc)}")
    try:
        fol._constraints_to_list_of_assertions(5)
    except Exception as exc:  # noqa: BLE001
        print(f"  to_list(5): {type(exc).__name__}: {mask(exc)}")


if __name__ == "__main__":
    case_not_and()
    case_implies()
    case_ite_basic()
    case_ite_edge()
    case_nested()
    case_optional()
    case_optional_min_max()
    case_unsat_and_debug()
    case_errors()
    case_helpers_direct()
