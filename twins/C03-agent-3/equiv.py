"""Equivalence script for the C03 refactoring twin.

Builds varied small problems using TaskStartAfter / TaskEndBefore /
TasksStartSynced / TasksEndSynced (mandatory and optional tasks, lax and strict,
value 0, symbolic value, optional constraints, nesting inside first order logic
operators, invalid parameters) and prints a canonical description of each:
the constraint's own assertions, the sorted solver assertions and the solution.
Random uids are masked.
"""
import contextlib
import io
import os
import re
import sys

sys.path.insert(0, os.getcwd())

import z3  # noqa: E402
import processscheduler as ps  # noqa: E402

assert os.path.dirname(os.path.abspath(ps.__file__)).startswith(os.getcwd()), ps.__file__


def mask(text):
    text = re.sub(r"\d{20,}", "<UID>", text)
    text = re.sub(r"[0-9a-f]{32}", "<HEX>", text)
    text = re.sub(r"[0-9a-f]{8}-[0-9a-f]{4}-[0-9a-f]{4}-[0-9a-f]{4}-[0-9a-f]{12}", "<UUID>", text)
    text = re.sub(r"_[0-9a-f]{8}\b", "_<H8>", text)
    return text


def show_constraint(label, cstr):
    print(f"  [{label}] {type(cstr).__name__} optional={cstr.optional}")
    for a in cstr.get_z3_assertions():
        print("     own:", mask(a.sexpr()).replace("\n", " "))


def solve_and_dump(pb, objective=None):
    buf = io.StringIO()
    with contextlib.redirect_stdout(buf):
        solver = ps.SchedulingSolver(problem=pb, random_values=False, parallel=False)
        solution = solver.solve()
        assts = sorted(mask(a.sexpr()).replace("\n", " ") for a in solver._solver.assertions())
    print(f"  solver assertions ({len(assts)}):")
    for a in assts:
        print("     ", re.sub(r"\s+", " ", a))
    if not solution:
        print("  solution: NONE")
        return
    print(f"  solution: horizon={solution.horizon}")
    for name in sorted(solution.tasks):
        t = solution.tasks[name]
        print(f"     {name}: start={t.start} end={t.end} dur={t.duration} optional={t.optional} scheduled={t.scheduled}")
    for name in sorted(solution.indicators):
        print(f"     indicator {name} = {solution.indicators[name]}")


def case(title):
    def deco(fn):
        print("=" * 70)
        print("CASE", title)
        try:
            fn()
        except Exception as exc:  # canonical description of the error
            print(f"  ERROR {type(exc).__name__}: {mask(str(exc))}")
        return fn

    return deco


@case("1 StartAfter lax/strict on mandatory tasks, value 0 and positive")
def _():
    pb = ps.SchedulingProblem(name="c1", horizon=20)
    a = ps.FixedDurationTask(name="A", duration=3)
    b = ps.FixedDurationTask(name="B", duration=2)
    c = ps.ZeroDurationTask(name="C")
    show_constraint("A>=0", ps.TaskStartAfter(task=a, value=0))
    show_constraint("B>0", ps.TaskStartAfter(task=b, value=0, kind="strict"))
    show_constraint("C>=7", ps.TaskStartAfter(task=c, value=7, kind="lax"))
    show_constraint("A>4", ps.TaskStartAfter(task=a, value=4, kind="strict"))
    ps.ObjectiveMinimizeMakespan()
    solve_and_dump(pb)


@case("2 EndBefore lax/strict on mandatory tasks, edge values")
def _():
    pb = ps.SchedulingProblem(name="c2", horizon=15)
    a = ps.FixedDurationTask(name="A", duration=3)
    b = ps.VariableDurationTask(name="B", min_duration=1, max_duration=4)
    c = ps.ZeroDurationTask(name="C")
    show_constraint("A<=3", ps.TaskEndBefore(task=a, value=3))
    show_constraint("B<9", ps.TaskEndBefore(task=b, value=9, kind="strict"))
    show_constraint("C<=0", ps.TaskEndBefore(task=c, value=0, kind="lax"))
    show_constraint("B after 5", ps.TaskStartAfter(task=b, value=5, kind="strict"))
    solve_and_dump(pb)


@case("3 StartAfter / EndBefore on optional tasks (guarded by scheduled flag)")
def _():
    pb = ps.SchedulingProblem(name="c3", horizon=12)
    a = ps.FixedDurationTask(name="A", duration=3, optional=True)
    b = ps.FixedDurationTask(name="B", duration=4, optional=True)
    c = ps.VariableDurationTask(name="C", optional=True, max_duration=5)
    show_constraint("A>=2", ps.TaskStartAfter(task=a, value=2))
    show_constraint("A<8", ps.TaskEndBefore(task=a, value=8, kind="strict"))
    show_constraint("B>6", ps.TaskStartAfter(task=b, value=6, kind="strict"))
    show_constraint("C<=0", ps.TaskEndBefore(task=c, value=0))
    ps.OptionalTaskForceSchedule(task=a, to_be_scheduled=True)
    ps.OptionalTaskForceSchedule(task=b, to_be_scheduled=True)
    ps.OptionalTaskForceSchedule(task=c, to_be_scheduled=False)
    solve_and_dump(pb)


@case("4 Start/End synced: all combinations of mandatory / optional tasks")
def _():
    pb = ps.SchedulingProblem(name="c4", horizon=20)
    m1 = ps.FixedDurationTask(name="M1", duration=3)
    m2 = ps.FixedDurationTask(name="M2", duration=5)
    o1 = ps.FixedDurationTask(name="O1", duration=2, optional=True)
    o2 = ps.VariableDurationTask(name="O2", optional=True, min_duration=1, max_duration=6)
    show_constraint("SS m1 m2", ps.TasksStartSynced(task_1=m1, task_2=m2))
    show_constraint("ES m1 o1", ps.TasksEndSynced(task_1=m1, task_2=o1))
    show_constraint("SS o2 m2", ps.TasksStartSynced(task_1=o2, task_2=m2))
    show_constraint("ES o1 o2", ps.TasksEndSynced(task_1=o1, task_2=o2))
    show_constraint("SS o1 o2", ps.TasksStartSynced(task_1=o1, task_2=o2))
    show_constraint("ES m2 o2", ps.TasksEndSynced(task_1=m2, task_2=o2))
    ps.ForceScheduleNOptionalTasks(list_of_optional_tasks=[o1, o2], nb_tasks_to_schedule=1, kind="min")
    ps.TaskStartAt(task=m1, value=4)
    solve_and_dump(pb)


@case("5 synced on mandatory tasks only, end synced + start after -> solution")
def _():
    pb = ps.SchedulingProblem(name="c5")
    a = ps.FixedDurationTask(name="A", duration=2)
    b = ps.FixedDurationTask(name="B", duration=6)
    c = ps.ZeroDurationTask(name="C")
    show_constraint("ES a b", ps.TasksEndSynced(task_1=a, task_2=b))
    show_constraint("SS c a", ps.TasksStartSynced(task_1=c, task_2=a))
    show_constraint("self SS", ps.TasksStartSynced(task_1=b, task_2=b))
    show_constraint("B>=1", ps.TaskStartAfter(task=b, value=1))
    ps.ObjectiveMinimizeMakespan()
    solve_and_dump(pb)


@case("6 optional constraints (optional=True) + ForceApplyNOptionalConstraints")
def _():
    pb = ps.SchedulingProblem(name="c6", horizon=10)
    a = ps.FixedDurationTask(name="A", duration=3)
    b = ps.FixedDurationTask(name="B", duration=3, optional=True)
    c1 = ps.TaskStartAfter(task=a, value=5, kind="strict", optional=True, name="c1")
    c2 = ps.TaskEndBefore(task=a, value=4, optional=True, name="c2")
    c3 = ps.TasksStartSynced(task_1=a, task_2=b, optional=True, name="c3")
    c4 = ps.TasksEndSynced(task_1=b, task_2=a, optional=True, name="c4")
    c5 = ps.TaskEndBefore(task=b, value=0, kind="strict", optional=True, name="c5")
    for k, c in enumerate((c1, c2, c3, c4, c5)):
        show_constraint(f"c{k + 1}", c)
    ps.ForceApplyNOptionalConstraints(list_of_optional_constraints=[c1, c2], nb_constraints_to_apply=1)
    ps.ForceApplyNOptionalConstraints(list_of_optional_constraints=[c3, c4, c5], nb_constraints_to_apply=2, kind="max")
    solve_and_dump(pb)


@case("7 symbolic (z3) values and nesting in first order logic operators")
def _():
    pb = ps.SchedulingProblem(name="c7", horizon=14)
    a = ps.FixedDurationTask(name="A", duration=2)
    b = ps.FixedDurationTask(name="B", duration=3, optional=True)
    c = ps.FixedDurationTask(name="C", duration=1)
    show_constraint("A>=B.end", ps.TaskStartAfter(task=a, value=b._end))
    show_constraint("C<A.start", ps.TaskEndBefore(task=c, value=a._start, kind="strict"))
    show_constraint("B>C.start+1", ps.TaskStartAfter(task=b, value=c._start + 1, kind="strict"))
    n = ps.Not(constraint=ps.TaskEndBefore(task=a, value=6))
    show_constraint("not", n)
    o = ps.Or(list_of_constraints=[ps.TasksStartSynced(task_1=a, task_2=b), ps.TasksEndSynced(task_1=c, task_2=b)])
    show_constraint("or", o)
    i = ps.Implies(condition=a._start > 8, list_of_constraints=[ps.TaskStartAfter(task=c, value=3, kind="strict")])
    show_constraint("implies", i)
    ite = ps.IfThenElse(
        condition=b._scheduled,
        then_list_of_constraints=[ps.TaskEndBefore(task=b, value=10, kind="strict")],
        else_list_of_constraints=[ps.TaskStartAfter(task=c, value=0)],
    )
    show_constraint("ite", ite)
    x = ps.Xor(constraint_1=ps.TaskStartAfter(task=a, value=9), constraint_2=ps.TaskEndBefore(task=a, value=9))
    show_constraint("xor", x)
    solve_and_dump(pb)


@case("8 unsatisfiable combination")
def _():
    pb = ps.SchedulingProblem(name="c8", horizon=10)
    a = ps.FixedDurationTask(name="A", duration=4)
    b = ps.FixedDurationTask(name="B", duration=4)
    ps.TasksStartSynced(task_1=a, task_2=b)
    ps.TaskStartAfter(task=a, value=3, kind="strict")
    ps.TaskEndBefore(task=b, value=8, kind="strict")
    solve_and_dump(pb)


def err_case(title, build):
    print("=" * 70)
    print("CASE", title)
    try:
        pb = ps.SchedulingProblem(name="e", horizon=10)
        cstr = build()
        show_constraint("built", cstr)
        print("  nb constraints in problem:", len(pb.constraints))
    except Exception as exc:
        msg = mask(str(exc))
        msg = re.sub(r"https://errors\.pydantic\.dev/\S+", "<URL>", msg)
        print(f"  ERROR {type(exc).__name__}: {msg}")


err_case("9a StartAfter invalid kind", lambda: ps.TaskStartAfter(task=ps.FixedDurationTask(name="A", duration=1), value=1, kind="tight"))
err_case("9b EndBefore invalid kind", lambda: ps.TaskEndBefore(task=ps.FixedDurationTask(name="A", duration=1), value=1, kind="min"))
err_case("9c EndBefore kind None", lambda: ps.TaskEndBefore(task=ps.FixedDurationTask(name="A", duration=1), value=1, kind=None))
err_case("9d StartAfter missing value", lambda: ps.TaskStartAfter(task=ps.FixedDurationTask(name="A", duration=1)))
err_case("9e StartAfter value string", lambda: ps.TaskStartAfter(task=ps.FixedDurationTask(name="A", duration=1), value="abc"))
err_case("9f StartSynced missing task_2", lambda: ps.TasksStartSynced(task_1=ps.FixedDurationTask(name="A", duration=1)))
err_case("9g EndSynced with a non task", lambda: ps.TasksEndSynced(task_1=ps.FixedDurationTask(name="A", duration=1), task_2=3))
err_case("9h StartAfter negative value accepted", lambda: ps.TaskStartAfter(task=ps.FixedDurationTask(name="A", duration=1), value=-2, kind="strict"))
err_case("9i EndBefore float value", lambda: ps.TaskEndBefore(task=ps.FixedDurationTask(name="A", duration=1), value=2.5))
err_case("9j EndBefore bool z3 value", lambda: ps.TaskEndBefore(task=ps.FixedDurationTask(name="A", duration=1), value=z3.Bool("q")))


def dup():
    a = ps.FixedDurationTask(name="A", duration=1)
    b = ps.FixedDurationTask(name="B", duration=1)
    c = ps.TasksEndSynced(task_1=a, task_2=b)
    # adding twice the same assertion must raise the same AssertionError
    c.set_z3_assertions(a._end == b._end)
    return c


err_case("9k duplicate assertion on a synced constraint", dup)
