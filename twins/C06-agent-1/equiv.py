"""Equivalence check for the C06 refactoring (Task.set_assertions and
ForceScheduleNOptionalTasks.__init__).

For each small problem prints the sorted list of the solver's assertions
and the solution values (or the error raised). uuid-derived name parts are masked.
Run:  cd /tmp/t3_C06 && /venv/bin/python _twin/equiv.py
"""
import contextlib
import io
import os
import re
import sys

sys.path.insert(0, os.getcwd())

import z3  # noqa: E402
import processscheduler as ps  # noqa: E402

MASK = re.compile(r"\d{8,}|[0-9a-f]{32}")


def mask(text):
    return MASK.sub("<UID>", text)


def describe(label, build, solve=True):
    print(f"=== {label}")
    try:
        with contextlib.redirect_stdout(io.StringIO()):
            pb = build()
            solver = ps.SchedulingSolver(problem=pb, random_values=False)
            solver.initialize()
            assertions = sorted(mask(str(a)) for a in solver._solver.assertions())
            solution = solver.solve() if solve else None
    except Exception as exc:  # pylint: disable=broad-except
        print(f"ERROR {type(exc).__name__}: {mask(str(exc))}")
        return
    # task level assertions, as stored on the tasks themselves
    for name in sorted(pb.tasks):
        task = pb.tasks[name]
        print(f"task {name} optional={task.optional} scheduled_var={task._scheduled}")
        for a in task.get_z3_assertions():
            print("   T:", mask(str(a)))
    for a in assertions:
        print("   S:", a)
    if not solve:
        return
    if not solution:
        print("   solution: NONE")
        return
    for name in sorted(solution.tasks):
        t = solution.tasks[name]
        print(
            f"   sol {name}: scheduled={t.scheduled} start={t.start} end={t.end} "
            f"duration={t.duration} optional={t.optional} res={sorted(t.assigned_resources)}"
        )
    for name in sorted(solution.indicators):
        print(f"   indicator {name} = {solution.indicators[name]}")


def p_mandatory_kinds():
    pb = ps.SchedulingProblem(name="mandatory_kinds", horizon=12)
    ps.FixedDurationTask(name="f", duration=3)
    ps.ZeroDurationTask(name="z")
    ps.VariableDurationTask(name="v", min_duration=0, max_duration=4)
    ps.VariableDurationTask(name="va", allowed_durations=[2, 5])
    ps.FixedDurationTask(name="rd", duration=2, release_date=3, due_date=9)
    ps.FixedDurationTask(name="rd0", duration=1, release_date=0, due_date=5,
                         due_date_is_deadline=False)
    return pb


def p_optional_kinds():
    pb = ps.SchedulingProblem(name="optional_kinds", horizon=12)
    ps.FixedDurationTask(name="f", duration=3, optional=True)
    ps.ZeroDurationTask(name="z", optional=True)
    ps.VariableDurationTask(name="v", min_duration=0, max_duration=4, optional=True)
    ps.VariableDurationTask(name="va", allowed_durations=[2, 5], optional=True)
    ps.FixedDurationTask(name="rd", duration=2, release_date=3, due_date=9,
                         optional=True)
    ps.VariableDurationTask(name="vrd", min_duration=1, release_date=0, due_date=7,
                            optional=True)
    return pb


def p_optional_with_worker():
    pb = ps.SchedulingProblem(name="optional_with_worker", horizon=6)
    w = ps.Worker(name="w")
    t1 = ps.FixedDurationTask(name="t1", duration=4)
    t2 = ps.FixedDurationTask(name="t2", duration=4, optional=True)
    t3 = ps.VariableDurationTask(name="t3", min_duration=2, optional=True)
    for t in (t1, t2, t3):
        t.add_required_resource(w)
    ps.OptionalTaskForceSchedule(task=t3, to_be_scheduled=True)
    ps.IndicatorResourceUtilization(resource=w)
    return pb


def make_force(kind, n, nb_tasks=3, forced=()):
    def build():
        pb = ps.SchedulingProblem(name=f"force_{kind}_{n}", horizon=8)
        w = ps.Worker(name="w")
        tasks = []
        for i in range(nb_tasks):
            if i % 2 == 0:
                t = ps.FixedDurationTask(name=f"o{i}", duration=2 + i, optional=True)
            else:
                t = ps.VariableDurationTask(name=f"o{i}", min_duration=1,
                                            max_duration=3, optional=True)
            t.add_required_resource(w)
            tasks.append(t)
        ps.FixedDurationTask(name="m", duration=2).add_required_resource(w)
        if kind is None:
            ps.ForceScheduleNOptionalTasks(list_of_optional_tasks=tasks,
                                           nb_tasks_to_schedule=n)
        else:
            ps.ForceScheduleNOptionalTasks(list_of_optional_tasks=tasks,
                                           nb_tasks_to_schedule=n, kind=kind)
        for i in forced:
            ps.OptionalTaskForceSchedule(task=tasks[i], to_be_scheduled=True)
        return pb

    return build


def p_force_default_n():
    pb = ps.SchedulingProblem(name="force_defaults", horizon=8)
    a = ps.FixedDurationTask(name="a", duration=2, optional=True)
    b = ps.ZeroDurationTask(name="b", optional=True)
    ps.ForceScheduleNOptionalTasks(list_of_optional_tasks=[a, b])
    return pb


def p_force_empty_list():
    pb = ps.SchedulingProblem(name="force_empty", horizon=8)
    ps.FixedDurationTask(name="a", duration=2, optional=True)
    ps.ForceScheduleNOptionalTasks(list_of_optional_tasks=[], kind="max")
    return pb


def p_force_optional_constraint():
    pb = ps.SchedulingProblem(name="force_optional_constraint", horizon=8)
    a = ps.FixedDurationTask(name="a", duration=2, optional=True)
    b = ps.FixedDurationTask(name="b", duration=3, optional=True)
    ps.ForceScheduleNOptionalTasks(name="fc", list_of_optional_tasks=[a, b],
                                   nb_tasks_to_schedule=2, kind="min", optional=True)
    return pb


def p_force_mandatory_in_list():
    pb = ps.SchedulingProblem(name="force_mandatory_in_list", horizon=8)
    a = ps.FixedDurationTask(name="a", duration=2, optional=True)
    b = ps.FixedDurationTask(name="b", duration=3)
    ps.ForceScheduleNOptionalTasks(list_of_optional_tasks=[a, b], nb_tasks_to_schedule=1)
    return pb


def p_force_zero():
    pb = ps.SchedulingProblem(name="force_zero", horizon=8)
    a = ps.FixedDurationTask(name="a", duration=2, optional=True)
    ps.ForceScheduleNOptionalTasks(list_of_optional_tasks=[a], nb_tasks_to_schedule=0)
    return pb


def p_force_bad_kind():
    pb = ps.SchedulingProblem(name="force_bad_kind", horizon=8)
    a = ps.FixedDurationTask(name="a", duration=2, optional=True)
    ps.ForceScheduleNOptionalTasks(list_of_optional_tasks=[a], kind="atleast")
    return pb


def p_force_too_many():
    """n > m with exact: unsatisfiable"""
    return make_force("exact", 4, nb_tasks=3)()


def p_objective_unscheduled_inert():
    pb = ps.SchedulingProblem(name="objective_inert", horizon=10)
    w = ps.Worker(name="w")
    a = ps.FixedDurationTask(name="a", duration=5, optional=True, priority=3)
    b = ps.FixedDurationTask(name="b", duration=6, optional=True, priority=1)
    c = ps.FixedDurationTask(name="c", duration=2)
    for t in (a, b, c):
        t.add_required_resource(w)
    ps.TaskStartAt(task=c, value=0)
    ps.ForceScheduleNOptionalTasks(list_of_optional_tasks=[a, b],
                                   nb_tasks_to_schedule=1, kind="exact")
    ps.ObjectiveMinimizeMakespan()
    return pb


CASES = [
    ("mandatory tasks of every kind", p_mandatory_kinds, True),
    ("optional tasks of every kind", p_optional_kinds, True),
    ("optional tasks sharing a worker", p_optional_with_worker, True),
    ("force exact 1 of 3", make_force("exact", 1), True),
    ("force min 2 of 3", make_force("min", 2), True),
    ("force max 1 of 3, one forced", make_force("max", 1, forced=(1,)), True),
    ("force default kind, n=3 of 3 (unsat on worker)", make_force(None, 3), True),
    ("force max 2 of 4", make_force("max", 2, nb_tasks=4, forced=(0, 3)), True),
    ("force with defaults", p_force_default_n, True),
    ("force with empty list", p_force_empty_list, True),
    ("force as optional constraint", p_force_optional_constraint, True),
    ("force with a mandatory task -> error", p_force_mandatory_in_list, True),
    ("force n=0 -> error", p_force_zero, True),
    ("force bad kind -> error", p_force_bad_kind, True),
    ("force exact 4 of 3 -> unsat", p_force_too_many, True),
    ("objective with one unscheduled optional task", p_objective_unscheduled_inert, True),
]

if __name__ == "__main__":
    for label, build, solve in CASES:
        describe(label, build, solve)
