"""Equivalence script for the WorkLoad / ResourceUnavailable refactoring (C05).

Run from the worktree root:  cd /tmp/t4_C05 && /venv/bin/python _twin/equiv.py
Every uuid is drawn from a seeded generator, so that the names of the z3
variables are the same from one run to the next and nothing has to be masked
(this also checks that the uuids are drawn in the same order).
"""
import os
import random
import re
import sys
import uuid

sys.path.insert(0, os.getcwd())


class _MaskTimings:
    """the solver prints wall clock timings ("checked in 0.02s"): mask them"""

    def __init__(self, stream):
        self._stream = stream

    def write(self, text):
        return self._stream.write(re.sub(r"\d+\.\d+s\b", "<time>s", text))

    def flush(self):
        self._stream.flush()


sys.stdout = _MaskTimings(sys.stdout)

_rng = random.Random(20240928)


def _fake_uuid4():
    return uuid.UUID(int=_rng.getrandbits(128), version=4)


uuid.uuid4 = _fake_uuid4  # before processscheduler is imported (base.py: from uuid import uuid4)

import processscheduler as ps  # noqa: E402
import processscheduler.base  # noqa: E402

assert processscheduler.base.uuid4 is _fake_uuid4
assert os.path.dirname(ps.__file__).startswith(os.getcwd()), ps.__file__


def describe_constraint(c):
    print(f"  constraint {c.name}: {len(c.get_z3_assertions())} assertion(s), in order")
    for a in c.get_z3_assertions():
        print("    " + " ".join(str(a).split()))


def solve(pb, show=()):
    solver = ps.SchedulingSolver(problem=pb, random_values=False)
    solution = solver.solve()
    print("  solver assertions (sorted):")
    for s in sorted(" ".join(str(a).split()) for a in solver._solver.assertions()):
        print("    " + s)
    if not solution:
        print("  verdict: NO SOLUTION")
        return
    print("  verdict: solution found")
    for t in show:
        ts = solution.tasks[t.name]
        print(
            f"    {t.name}: scheduled={ts.scheduled} start={ts.start} end={ts.end} "
            f"resources={sorted(ts.assigned_resources)}"
        )


def case(title, fn):
    print("=" * 70)
    print(title)
    try:
        fn()
    except BaseException as exc:  # noqa: BLE001
        msg = " ".join(str(exc).split())
        print(f"  raised {type(exc).__name__}: {msg[:400]}")


# ---------------------------------------------------------------- WorkLoad
def wl_max_two_tasks_two_intervals():
    pb = ps.SchedulingProblem(name="wl1", horizon=12)
    t1 = ps.FixedDurationTask(name="t1", duration=4)
    t2 = ps.FixedDurationTask(name="t2", duration=3)
    w = ps.Worker(name="W")
    t1.add_required_resource(w)
    t2.add_required_resource(w)
    c = ps.WorkLoad(
        name="WL", resource=w, dict_time_intervals_and_bound={(0, 5): 0, (5, 12): 7}
    )
    describe_constraint(c)
    # the only valid schedules have both tasks in [5, 12]; pin one of them
    ps.TaskStartAt(task=t1, value=5)
    ps.TaskStartAt(task=t2, value=9)
    solve(pb, [t1, t2])


def wl_max_infeasible():
    pb = ps.SchedulingProblem(name="wl2", horizon=8)
    t1 = ps.FixedDurationTask(name="t1", duration=4)
    w = ps.Worker(name="W")
    t1.add_required_resource(w)
    c = ps.WorkLoad(name="WL", resource=w, dict_time_intervals_and_bound={(0, 8): 3})
    describe_constraint(c)
    solve(pb, [t1])


def wl_exact_cumulative_optional_constraint():
    pb = ps.SchedulingProblem(name="wl3", horizon=10)
    t1 = ps.FixedDurationTask(name="t1", duration=3)
    t2 = ps.VariableDurationTask(name="t2", min_duration=0, max_duration=4)
    cw = ps.CumulativeWorker(name="CW", size=2)
    t1.add_required_resource(cw)
    t2.add_required_resource(cw)
    c = ps.WorkLoad(
        name="WL",
        resource=cw,
        dict_time_intervals_and_bound={(2, 6): 5},
        kind="exact",
        optional=True,
    )
    describe_constraint(c)
    ps.ForceApplyNOptionalConstraints(
        list_of_optional_constraints=[c], nb_constraints_to_apply=1
    )
    ps.TaskStartAt(task=t1, value=1)  # 2 slots in (2, 6)
    ps.TaskStartAt(task=t2, value=3)
    ps.TaskEndAt(task=t2, value=6)  # 3 slots in (2, 6)
    solve(pb, [t1, t2])


def wl_min_optional_task_select_workers():
    pb = ps.SchedulingProblem(name="wl4", horizon=10)
    t1 = ps.FixedDurationTask(name="t1", duration=4, optional=True)
    t2 = ps.FixedDurationTask(name="t2", duration=2)
    w1 = ps.Worker(name="W1")
    w2 = ps.Worker(name="W2")
    t1.add_required_resource(w1)
    t2.add_required_resource(
        ps.SelectWorkers(list_of_workers=[w1, w2], nb_workers_to_select=1)
    )
    c = ps.WorkLoad(
        name="WL",
        resource=w1,
        dict_time_intervals_and_bound={(3, 9): 6, (0, 3): 0},
        kind="min",
    )
    describe_constraint(c)
    ps.TaskStartAt(task=t1, value=3)
    ps.TaskStartAt(task=t2, value=7)
    solve(pb, [t1, t2])


def wl_errors():
    pb = ps.SchedulingProblem(name="wl5", horizon=10)
    w = ps.Worker(name="W")
    cw = ps.CumulativeWorker(name="CW", size=3)
    t = ps.FixedDurationTask(name="t", duration=2)
    t.add_required_resource(w)
    for label, kwargs in [
        ("unassigned cumulative", dict(resource=cw, dict_time_intervals_and_bound={(0, 4): 1})),
        ("unassigned, empty dict", dict(resource=cw, dict_time_intervals_and_bound={})),
        ("assigned, empty dict", dict(resource=w, dict_time_intervals_and_bound={})),
        ("wrong kind", dict(resource=w, dict_time_intervals_and_bound={(0, 4): 1}, kind="atmost")),
        ("wrong key", dict(resource=w, dict_time_intervals_and_bound={(0, 4, 5): 1})),
        ("wrong resource", dict(resource=t, dict_time_intervals_and_bound={(0, 4): 1})),
        ("no resource", dict(dict_time_intervals_and_bound={(0, 4): 1})),
    ]:
        try:
            c = ps.WorkLoad(name="WL_" + label.replace(" ", "_"), **kwargs)
            print(f"  [{label}] created")
            describe_constraint(c)
        except BaseException as exc:  # noqa: BLE001
            print(f"  [{label}] raised {type(exc).__name__}: {' '.join(str(exc).split())[:300]}")
    print("  constraints registered in the problem:", list(pb.constraints))
    solve(pb, [t])


# ------------------------------------------------------- ResourceUnavailable
def ru_single_worker():
    pb = ps.SchedulingProblem(name="ru1", horizon=10)
    t1 = ps.FixedDurationTask(name="t1", duration=3)
    t2 = ps.ZeroDurationTask(name="t2")
    w = ps.Worker(name="W")
    t1.add_required_resource(w)
    t2.add_required_resource(w)
    c = ps.ResourceUnavailable(
        name="RU", resource=w, list_of_time_intervals=[(1, 3), (6, 8), (0, 0)]
    )
    describe_constraint(c)
    ps.TaskStartAt(task=t1, value=3)
    ps.TaskStartAt(task=t2, value=8)
    solve(pb, [t1, t2])


def ru_infeasible():
    pb = ps.SchedulingProblem(name="ru2", horizon=10)
    t1 = ps.FixedDurationTask(name="t1", duration=3)
    w = ps.Worker(name="W")
    t1.add_required_resource(w)
    c1 = ps.ResourceUnavailable(name="RU1", resource=w, list_of_time_intervals=[(1, 3)])
    c2 = ps.ResourceUnavailable(name="RU2", resource=w, list_of_time_intervals=[(5, 8)])
    describe_constraint(c1)
    describe_constraint(c2)
    solve(pb, [t1])


def ru_cumulative_optional():
    pb = ps.SchedulingProblem(name="ru3", horizon=6)
    t1 = ps.FixedDurationTask(name="t1", duration=2)
    t2 = ps.FixedDurationTask(name="t2", duration=2, optional=True)
    cw = ps.CumulativeWorker(name="CW", size=2)
    t1.add_required_resource(cw)
    t2.add_required_resource(cw)
    c = ps.ResourceUnavailable(
        name="RU", resource=cw, list_of_time_intervals=[(0, 2), (4, 6)], optional=True
    )
    describe_constraint(c)
    ps.ForceApplyNOptionalConstraints(
        list_of_optional_constraints=[c], nb_constraints_to_apply=1
    )
    ps.OptionalTaskForceSchedule(task=t2, to_be_scheduled=True) if hasattr(
        ps, "OptionalTaskForceSchedule"
    ) else ps.ForceScheduleNOptionalTasks(
        list_of_optional_tasks=[t2], nb_tasks_to_schedule=1
    )
    ps.TaskStartAt(task=t1, value=2)
    ps.TaskStartAt(task=t2, value=2)
    solve(pb, [t1, t2])


def ru_errors():
    pb = ps.SchedulingProblem(name="ru4", horizon=10)
    w = ps.Worker(name="W")
    w2 = ps.Worker(name="W2")
    cw = ps.CumulativeWorker(name="CW", size=2)
    t = ps.FixedDurationTask(name="t", duration=2)
    t.add_required_resource(w)
    for label, kwargs in [
        ("unassigned worker", dict(resource=w2, list_of_time_intervals=[(0, 4)])),
        ("unassigned cumulative", dict(resource=cw, list_of_time_intervals=[(0, 4), (5, 6)])),
        ("unassigned, no interval", dict(resource=w2, list_of_time_intervals=[])),
        ("assigned, no interval", dict(resource=w, list_of_time_intervals=[])),
        ("duplicate interval", dict(resource=w, list_of_time_intervals=[(0, 4), (5, 6), (0, 4)])),
        ("wrong interval", dict(resource=w, list_of_time_intervals=[(0, 4, 6)])),
        ("wrong resource", dict(resource=t, list_of_time_intervals=[(0, 4)])),
        ("fine", dict(resource=w, list_of_time_intervals=[(0, 8)])),
    ]:
        try:
            c = ps.ResourceUnavailable(name="RU_" + label.replace(" ", "_"), **kwargs)
            print(f"  [{label}] created")
            describe_constraint(c)
        except BaseException as exc:  # noqa: BLE001
            print(f"  [{label}] raised {type(exc).__name__}: {' '.join(str(exc).split())[:300]}")
    print("  constraints registered in the problem:")
    for c in pb.constraints.values():
        describe_constraint(c)
    solve(pb, [t])


def both_together_unique_solution():
    # taken from the spirit of test_resource_work_load_3: the only valid
    # schedule is found without any pin
    pb = ps.SchedulingProblem(name="mix", horizon=12)
    t1 = ps.FixedDurationTask(name="t1", duration=8)
    w = ps.Worker(name="W")
    t1.add_required_resource(w)
    c1 = ps.WorkLoad(name="WL", resource=w, dict_time_intervals_and_bound={(0, 6): 2})
    c2 = ps.ResourceUnavailable(name="RU", resource=w, list_of_time_intervals=[(0, 1)])
    describe_constraint(c1)
    describe_constraint(c2)
    solve(pb, [t1])


case("1. WorkLoad max, one worker, two tasks, two intervals (bound 0), pinned", wl_max_two_tasks_two_intervals)
case("2. WorkLoad max, infeasible", wl_max_infeasible)
case("3. WorkLoad exact, cumulative worker, optional constraint, variable duration", wl_exact_cumulative_optional_constraint)
case("4. WorkLoad min, optional task, worker reached through SelectWorkers", wl_min_optional_task_select_workers)
case("5. WorkLoad error / corner cases", wl_errors)
case("6. ResourceUnavailable, one worker, zero length task and interval, pinned", ru_single_worker)
case("7. ResourceUnavailable, infeasible", ru_infeasible)
case("8. ResourceUnavailable, cumulative worker, optional constraint, optional task", ru_cumulative_optional)
case("9. ResourceUnavailable error / corner cases", ru_errors)
case("10. WorkLoad + ResourceUnavailable, unique solution without pin", both_together_unique_solution)
