"""Equivalence probe for the C03 twin refactoring (TaskGroup, TasksDontOverlap,
TasksContiguous). Prints a canonical description of each scenario."""
import contextlib
import io
import os
import re
import sys

sys.path.insert(0, os.getcwd())

import z3
import processscheduler as ps

assert ps.__file__.startswith(os.getcwd()), ps.__file__

_seen = {}


def mask(text):
    def repl(m):
        return "UUID%d" % _seen.setdefault(m.group(0), len(_seen))

    return re.sub(r"\d{20,}", repl, text)


def describe(title, build, solve=True):
    _seen.clear()
    print("=" * 70)
    print(title)
    try:
        pb, constraints = build()
        for c in constraints:
            print(" constraint", type(c).__name__, "optional=%s" % c.optional)
            for a in c.get_z3_assertions():
                print("   A:", mask(str(a).replace("\n", " ")))
            if hasattr(c, "_scheduled_assertion"):
                for a in c._scheduled_assertion:
                    print("   S:", mask(str(a).replace("\n", " ")))
        solver = ps.SchedulingSolver(problem=pb, random_values=False)
        with contextlib.redirect_stdout(io.StringIO()):
            solver.initialize()
        for line in sorted(mask(str(a).replace("\n", " ")) for a in solver._solver.assertions()):
            print("   Z:", line)
        if solve:
            with contextlib.redirect_stdout(io.StringIO()):
                solution = solver.solve()
            if not solution:
                print(" solution: NONE")
            else:
                # the concrete model is not reproducible from one process to the
                # next (uuid based names), so report reproducible facts only:
                # satisfiability, optimum when there is an objective, and an
                # independent check of the documented relation on the schedule
                print(" solution: SAT")
                if pb.objectives:
                    print(" horizon:", solution.horizon)
                for c in constraints:
                    print("  check", type(c).__name__, check(c, solution))
    except Exception as exc:  # canonical error report
        print(" ERROR", type(exc).__name__, mask(str(exc))[:300])


def check(c, solution):
    """Independent check of the documented relation on the returned schedule."""
    if c.optional:
        return "skipped (optional constraint)"
    sol = lambda t: solution.tasks[t.name]
    if isinstance(c, ps.task_constraint.TaskGroup):
        sched = [sol(t) for t in c.list_of_tasks if sol(t).scheduled]
        if not sched:
            return True
        if c.time_interval is not None:
            return all(
                c.time_interval[0] <= t.start and t.end <= c.time_interval[1]
                for t in sched
            )
        if c.time_interval_length is not None:
            return (
                max(t.end for t in sched) - min(t.start for t in sched)
                <= c.time_interval_length
            )
        return True
    if isinstance(c, ps.TasksDontOverlap):
        a, b = sol(c.task_1), sol(c.task_2)
        if not (a.scheduled and b.scheduled):
            return True
        return (b.start >= a.end) != (a.start >= b.end)
    if isinstance(c, ps.TasksContiguous):
        ts = [sol(t) for t in c.list_of_tasks]
        if not all(t.scheduled for t in ts):
            return "skipped (unscheduled member)"
        ts.sort(key=lambda t: t.start)
        return all(n.start == p.end for p, n in zip(ts, ts[1:]))
    return "n/a"


def fixed(n, durations, optional=()):
    return [
        ps.FixedDurationTask(name=f"t{i}", duration=d, optional=(i in optional))
        for i, d in zip(range(n), durations)
    ]


# ---- TaskGroup / UnorderedTaskGroup / OrderedTaskGroup ----
def g_interval():
    pb = ps.SchedulingProblem(name="g_interval", horizon=20)
    ts = fixed(3, [3, 0 + 1, 5])
    c = ps.UnorderedTaskGroup(list_of_tasks=ts, time_interval=[6, 17])
    return pb, [c]


def g_interval_zero():
    pb = ps.SchedulingProblem(name="g_interval_zero", horizon=12)
    ts = fixed(2, [2, 4])
    c = ps.UnorderedTaskGroup(list_of_tasks=ts, time_interval=(0, 6))
    return pb, [c]


def g_length():
    pb = ps.SchedulingProblem(name="g_length", horizon=30)
    ts = fixed(3, [3, 2, 4])
    w = ps.Worker(name="w")
    for t in ts:
        t.add_required_resource(w)
    c = ps.UnorderedTaskGroup(list_of_tasks=ts, time_interval_length=9)
    return pb, [c]


def g_length_zero():
    # time_interval_length=0 is not None: a zero length window (unsat with durations > 0)
    pb = ps.SchedulingProblem(name="g_length_zero", horizon=10)
    ts = fixed(2, [1, 1])
    c = ps.UnorderedTaskGroup(list_of_tasks=ts, time_interval_length=0)
    return pb, [c]


def g_both():
    # both given: the interval wins
    pb = ps.SchedulingProblem(name="g_both", horizon=25)
    ts = fixed(2, [3, 3])
    c = ps.UnorderedTaskGroup(
        list_of_tasks=ts, time_interval=[2, 20], time_interval_length=4
    )
    return pb, [c]


def g_none():
    pb = ps.SchedulingProblem(name="g_none", horizon=10)
    ts = fixed(2, [3, 3])
    c = ps.UnorderedTaskGroup(list_of_tasks=ts)
    return pb, [c]


def g_empty():
    pb = ps.SchedulingProblem(name="g_empty", horizon=10)
    ps.FixedDurationTask(name="alone", duration=1)
    c = ps.UnorderedTaskGroup(list_of_tasks=[], time_interval=[1, 3])
    return pb, [c]


def g_ordered():
    pb = ps.SchedulingProblem(name="g_ordered", horizon=40)
    ts = fixed(3, [3, 2, 4])
    c1 = ps.OrderedTaskGroup(list_of_tasks=ts, kind="tight", time_interval=[5, 30])
    c2 = ps.OrderedTaskGroup(
        list_of_tasks=list(reversed(ts)), kind="strict", optional=True
    )
    return pb, [c1, c2]


def g_precedence():
    pb = ps.SchedulingProblem(name="g_precedence", horizon=40)
    ts = fixed(4, [3, 2, 4, 1])
    ga = ps.UnorderedTaskGroup(list_of_tasks=ts[:2], time_interval_length=6)
    gb = ps.UnorderedTaskGroup(list_of_tasks=ts[2:], time_interval=[0, 30])
    c = ps.TaskPrecedence(task_before=ga, task_after=gb, offset=2)
    return pb, [ga, gb, c]


def g_bad_interval():
    pb = ps.SchedulingProblem(name="g_bad", horizon=10)
    ts = fixed(2, [1, 1])
    c = ps.UnorderedTaskGroup(list_of_tasks=ts, time_interval=[1, 2, 3])
    return pb, [c]


def g_optional_group():
    pb = ps.SchedulingProblem(name="g_optgroup", horizon=10)
    ts = fixed(2, [2, 3], optional=(1,))
    c = ps.UnorderedTaskGroup(list_of_tasks=ts, time_interval=[1, 8], optional=True)
    return pb, [c]


# ---- TasksDontOverlap ----
def o_mandatory():
    pb = ps.SchedulingProblem(name="o_mand", horizon=7)
    ts = fixed(2, [3, 4])
    return pb, [ps.TasksDontOverlap(task_1=ts[0], task_2=ts[1])]


def o_first_optional():
    pb = ps.SchedulingProblem(name="o_opt1", horizon=7)
    ts = fixed(2, [3, 4], optional=(0,))
    return pb, [ps.TasksDontOverlap(task_1=ts[0], task_2=ts[1])]


def o_second_optional_tight():
    pb = ps.SchedulingProblem(name="o_opt2", horizon=3)
    ts = fixed(2, [3, 3], optional=(1,))
    return pb, [ps.TasksDontOverlap(task_1=ts[0], task_2=ts[1])]


def o_both_optional_constraint_optional():
    pb = ps.SchedulingProblem(name="o_opt3", horizon=9)
    ts = fixed(2, [3, 3], optional=(0, 1))
    c = ps.TasksDontOverlap(task_1=ts[0], task_2=ts[1], optional=True)
    ps.ForceScheduleNOptionalTasks(list_of_optional_tasks=ts, nb_tasks_to_schedule=2)
    return pb, [c]


def o_zero_duration():
    pb = ps.SchedulingProblem(name="o_zero", horizon=5)
    a = ps.ZeroDurationTask(name="z0")
    b = ps.VariableDurationTask(name="v1", min_duration=0, max_duration=2)
    c1 = ps.TasksDontOverlap(task_1=a, task_2=b)
    c2 = ps.TasksDontOverlap(task_1=b, task_2=a)
    return pb, [c1, c2]


def o_unsat():
    pb = ps.SchedulingProblem(name="o_unsat", horizon=5)
    ts = fixed(2, [3, 3])
    return pb, [ps.TasksDontOverlap(task_1=ts[0], task_2=ts[1])]


def o_same_task():
    pb = ps.SchedulingProblem(name="o_same", horizon=5)
    ts = fixed(1, [2])
    return pb, [ps.TasksDontOverlap(task_1=ts[0], task_2=ts[0])]


def o_not():
    pb = ps.SchedulingProblem(name="o_not", horizon=6)
    ts = fixed(2, [3, 3])
    c = ps.TasksDontOverlap(task_1=ts[0], task_2=ts[1])
    n = ps.Not(constraint=c) if hasattr(ps, "Not") else None
    return pb, [x for x in (c, n) if x is not None]


# ---- TasksContiguous ----
def c_three():
    pb = ps.SchedulingProblem(name="c_three", horizon=20)
    ts = fixed(3, [3, 2, 4])
    w = ps.Worker(name="w")
    for t in ts:
        t.add_required_resource(w)
    c = ps.TasksContiguous(list_of_tasks=ts)
    ps.TaskStartAt(task=ts[1], value=5)
    return pb, [c]


def c_one():
    pb = ps.SchedulingProblem(name="c_one", horizon=6)
    ts = fixed(1, [3])
    return pb, [ps.TasksContiguous(list_of_tasks=ts)]


def c_empty():
    pb = ps.SchedulingProblem(name="c_empty", horizon=6)
    ps.FixedDurationTask(name="alone", duration=2)
    return pb, [ps.TasksContiguous(list_of_tasks=[])]


def c_optional_member():
    pb = ps.SchedulingProblem(name="c_optm", horizon=12)
    ts = fixed(3, [3, 2, 4], optional=(2,))
    w = ps.Worker(name="w")
    for t in ts:
        t.add_required_resource(w)
    return pb, [ps.TasksContiguous(list_of_tasks=ts)]


def c_optional_constraint_two():
    pb = ps.SchedulingProblem(name="c_optc", horizon=15)
    ts = fixed(4, [3, 2, 4, 1])
    w = ps.Worker(name="w")
    for t in ts:
        t.add_required_resource(w)
    c1 = ps.TasksContiguous(list_of_tasks=ts[:2], optional=True)
    c2 = ps.TasksContiguous(list_of_tasks=ts[1:])
    return pb, [c1, c2]


def c_objective():
    pb = ps.SchedulingProblem(name="c_obj")
    n = 3
    t1 = [ps.FixedDurationTask(name=f"a{i}", duration=3) for i in range(n)]
    t2 = [ps.FixedDurationTask(name=f"b{i}", duration=5) for i in range(n)]
    w1, w2 = ps.Worker(name="w1"), ps.Worker(name="w2")
    for t in t1:
        t.add_required_resource(w1)
    for t in t2:
        t.add_required_resource(w2)
    c = ps.TasksContiguous(list_of_tasks=t1 + t2)
    ps.ObjectiveMinimizeMakespan()
    return pb, [c]


def c_bad_member():
    pb = ps.SchedulingProblem(name="c_bad", horizon=6)
    return pb, [ps.TasksContiguous(list_of_tasks=[1, 2])]


SCENARIOS = [
    g_interval, g_interval_zero, g_length, g_length_zero, g_both, g_none, g_empty,
    g_ordered, g_precedence, g_bad_interval, g_optional_group,
    o_mandatory, o_first_optional, o_second_optional_tight,
    o_both_optional_constraint_optional, o_zero_duration, o_unsat, o_same_task, o_not,
    c_three, c_one, c_empty, c_optional_member, c_optional_constraint_two,
    c_objective, c_bad_member,
]

for sc in SCENARIOS:
    describe(sc.__name__, sc)
