"""Equivalence script for the C12 refactoring (append_z3_assertion, check_sat,
build_solution of SchedulingSolver). Prints a canonical description of the outcome
of several small problems; uuid parts and computation times are masked."""
import contextlib
import io
import os
import re
import sys
from datetime import datetime, timedelta

sys.path.insert(0, os.getcwd())

import z3  # noqa: E402
import processscheduler as ps  # noqa: E402

assert ps.__file__.startswith(os.getcwd()), ps.__file__


def mask(text):
    text = re.sub(r"asst_[0-9a-f]{8}", "asst_XXXXXXXX", text)
    text = re.sub(r"[0-9a-f]{8}-[0-9a-f]{4}-[0-9a-f]{4}-[0-9a-f]{4}-[0-9a-f]{12}", "UUID", text)
    text = re.sub(r"_[0-9a-f]{8}\b", "_HEX8", text)
    text = re.sub(r"_\d{20,}", "_UUIDINT", text)
    text = re.sub(r"\d+\.\d+s", "T.TTs", text)
    text = re.sub(r"(elapsed time|time|memory|max memory|max-memory|rlimit[ -]count|mk[- ]bool[- ]var|num allocs)(:? *)[-0-9.e+]+", r"\1\2N", text)
    return text


def describe(solution):
    if not solution:
        return repr(solution)
    out = [f"horizon={solution.horizon}"]
    for name in sorted(solution.tasks):
        t = solution.tasks[name]
        out.append(
            f"T {name} type={t.type} s={t.start} e={t.end} d={t.duration} opt={t.optional} "
            f"sched={t.scheduled!r} rel={t.release_date} due={t.due_date} dl={t.due_date_is_deadline} "
            f"wa={t.work_amount} prio={t.priority} st={t.start_time!r} et={t.end_time!r} "
            f"dt={t.duration_time!r} res={t.assigned_resources}"
        )
    for name in sorted(solution.resources):
        r = solution.resources[name]
        out.append(f"R {name} type={r.type} assignments={sorted(r.assignments)}")
    for name in sorted(solution.buffers):
        b = solution.buffers[name]
        out.append(f"B {name} level={b.level} times={b.level_change_times}")
    for name in sorted(solution.indicators):
        out.append(f"I {name}={solution.indicators[name]}")
    return "\n    ".join(out)


def assertions_of(solver):
    return sorted(mask(str(a)) for a in solver._solver.assertions())


def run(title, fn):
    print("=" * 70)
    print("CASE", title)
    buf = io.StringIO()
    try:
        with contextlib.redirect_stdout(buf):
            result = fn()
        print("RESULT:")
        for line in result:
            print("  ", line)
    except Exception as exc:  # noqa: BLE001
        print("ERROR:", type(exc).__name__, mask(str(exc)))
    # statistics lines of the debug mode are not deterministic: drop them
    printed = []
    skipping = False
    model_block = None  # lines of print_solution: their order follows random names
    for line in mask(buf.getvalue()).splitlines():
        if model_block is not None:
            if line.lstrip().startswith("-> ") and line[:1] in " \t":
                model_block.append(line)
                continue
            printed.extend(sorted(model_block))
            model_block = None
        if line.startswith("Solver statistics:"):
            skipping = True
            continue
        # (rich's print, used by the library when available, expands the tabs)
        if skipping and line[:1] in " \t" and not line.lstrip().startswith("->"):
            continue
        skipping = False
        printed.append(line)
        if line.startswith("Solution:"):
            model_block = []
    if model_block:
        printed.extend(sorted(model_block))
    print("STDOUT:")
    for line in printed:
        print("  |", line)


def enumerate_all(solver, limit=60):
    """solve, then ask for another solution until failure. Returns descriptions:
    the sequence is deterministic for a given z3 and a given set of assertions."""
    res = []
    sol = solver.solve()
    n = 0
    while sol and n < limit:
        res.append(describe(sol))
        sol = solver.find_another_solution()
        n += 1
    res.append(f"last={sol!r} count={n}")
    res.append("assertions=" + repr(assertions_of(solver)))
    return res


def case_single_fixed():
    pb = ps.SchedulingProblem(name="SingleFixed", horizon=4)
    ps.FixedDurationTask(name="t1", duration=2, priority=3, work_amount=0)
    return enumerate_all(ps.SchedulingSolver(problem=pb))


def case_optional_fixed():
    pb = ps.SchedulingProblem(name="OptionalFixed", horizon=2)
    ps.FixedDurationTask(name="t1", duration=1, optional=True)
    ps.ZeroDurationTask(name="z0")
    return enumerate_all(ps.SchedulingSolver(problem=pb))


def case_variable_precedence():
    pb = ps.SchedulingProblem(name="VarPrec", horizon=3)
    t1 = ps.VariableDurationTask(name="v1", min_duration=0, max_duration=2)
    t2 = ps.FixedDurationTask(name="f2", duration=1, release_date=1, due_date=3)
    ps.TaskPrecedence(task_before=t1, task_after=t2, offset=0)
    return enumerate_all(ps.SchedulingSolver(problem=pb))


def case_for_variable():
    pb = ps.SchedulingProblem(name="ForVariable", horizon=4)
    t1 = ps.FixedDurationTask(name="t1", duration=2)
    solver = ps.SchedulingSolver(problem=pb)
    res = [describe(solver.solve())]
    for _ in range(4):
        sol = solver.find_another_solution_for_variable(t1._start)
        res.append(describe(sol))
        if not sol:
            break
    res.append("assertions=" + repr(assertions_of(solver)))
    return res


def case_before_solve():
    pb = ps.SchedulingProblem(name="BeforeSolve", horizon=4)
    ps.FixedDurationTask(name="t1", duration=2)
    solver = ps.SchedulingSolver(problem=pb)
    res = []
    for call in (solver.find_another_solution,
                 lambda: solver.find_another_solution_for_variable(z3.Int("x"))):
        try:
            call()
            res.append("no error")
        except AssertionError as exc:
            res.append(f"AssertionError: {exc}")
    return res


def case_times_with_start():
    pb = ps.SchedulingProblem(
        name="Times", horizon=3, delta_time=timedelta(minutes=15),
        start_time=datetime(2024, 1, 1, 8, 0),
    )
    ps.FixedDurationTask(name="t1", duration=2, optional=True)
    ps.VariableDurationTask(name="v1", max_duration=1)
    return enumerate_all(ps.SchedulingSolver(problem=pb))


def case_times_no_start():
    pb = ps.SchedulingProblem(name="TimesNoStart", horizon=2, delta_time=timedelta(hours=1))
    ps.FixedDurationTask(name="t1", duration=1, optional=True)
    ps.ZeroDurationTask(name="z1")
    try:
        return enumerate_all(ps.SchedulingSolver(problem=pb))
    except Exception as exc:  # noqa: BLE001
        return [f"raised {type(exc).__name__}: {mask(str(exc))[:300]}"]


def case_workers():
    pb = ps.SchedulingProblem(name="Workers", horizon=3)
    t1 = ps.FixedDurationTask(name="t1", duration=2)
    t2 = ps.FixedDurationTask(name="t2", duration=1, optional=True)
    w1 = ps.Worker(name="w1")
    w2 = ps.Worker(name="w2")
    cw = ps.CumulativeWorker(name="cw", size=2)
    t1.add_required_resource(ps.SelectWorkers(list_of_workers=[w1, w2], nb_workers_to_select=1))
    t1.add_required_resource(cw)
    t2.add_required_resource(w1)
    t2.add_required_resource(cw)
    return enumerate_all(ps.SchedulingSolver(problem=pb), limit=25)


def case_buffer_indicator():
    pb = ps.SchedulingProblem(name="BufferIndicator", horizon=3)
    t1 = ps.FixedDurationTask(name="t1", duration=1)
    t2 = ps.FixedDurationTask(name="t2", duration=1)
    buf = ps.NonConcurrentBuffer(name="b1", initial_level=2)
    ps.TaskUnloadBuffer(task=t1, buffer=buf, quantity=1)
    ps.TaskLoadBuffer(task=t2, buffer=buf, quantity=2)
    ps.IndicatorFromMathExpression(name="sum_starts", expression=t1._start + t2._start)
    return enumerate_all(ps.SchedulingSolver(problem=pb), limit=25)


def case_debug_mode():
    pb = ps.SchedulingProblem(name="Debug", horizon=3)
    t1 = ps.FixedDurationTask(name="t1", duration=2)
    ps.TaskStartAt(task=t1, value=1, name="start_at_1")
    solver = ps.SchedulingSolver(problem=pb, debug=True)
    res = enumerate_all(solver)
    res.append("map=" + repr(sorted((mask(k), v) for k, v in solver._map_boolrefs_to_constraints.items())))
    return res


def case_debug_unsat():
    pb = ps.SchedulingProblem(name="DebugUnsat", horizon=10)
    t1 = ps.FixedDurationTask(name="t1", duration=7)
    ps.TaskStartAt(task=t1, value=1, name="start_at_1")
    ps.TaskEndAt(task=t1, value=4, name="end_at_4")
    solver = ps.SchedulingSolver(problem=pb, debug=True)
    res = [repr(solver.solve())]
    res.append("map=" + repr(sorted((mask(k), v) for k, v in solver._map_boolrefs_to_constraints.items())))
    return res


def case_append_direct():
    res = []
    for debug in (False, True):
        pb = ps.SchedulingProblem(name=f"Append{debug}", horizon=5)
        t1 = ps.FixedDurationTask(name="t1", duration=1)
        solver = ps.SchedulingSolver(problem=pb, debug=debug)
        solver.initialize()
        x = z3.Int("x")
        calls = [
            ((x > 0,), {}),
            (([x < 9, x != 4],), {}),
            (([],), {}),
            (((x != 5, x != 6),), {}),
            ((x != 7,), {"higher_constraint_name": "named_single"}),
            (([x != 8, t1._start >= 1],), {"higher_constraint_name": "named_list"}),
            ((x != 3,), {"higher_constraint_name": ""}),
            ((True,), {}),
            (([x != 2, "junk", x != 1],), {"higher_constraint_name": "partly_bad"}),
        ]
        r = []
        for args, kwargs in calls:
            try:
                r.append(repr(solver.append_z3_assertion(*args, **kwargs)))
            except Exception as exc:  # noqa: BLE001
                r.append(f"{type(exc).__name__}: {mask(str(exc))[:120]}")
        res.append(f"debug={debug} returns={r}")
        res.append("assertions=" + repr(assertions_of(solver)))
        res.append("map=" + repr(sorted((mask(k), v) for k, v in solver._map_boolrefs_to_constraints.items())))
        with contextlib.redirect_stdout(io.StringIO()):
            res.append(describe(solver.solve()))
        for bad in (None, "not an assertion", 3):
            try:
                res.append(f"bad {bad!r} -> {solver.append_z3_assertion(bad)!r}")
            except Exception as exc:  # noqa: BLE001
                res.append(f"bad {bad!r} raised {type(exc).__name__}: {mask(str(exc))[:120]}")
    return res


def case_incremental_optimizer():
    pb = ps.SchedulingProblem(name="Incremental")
    t1 = ps.FixedDurationTask(name="t1", duration=2)
    t2 = ps.FixedDurationTask(name="t2", duration=1, optional=True)
    w = ps.Worker(name="w")
    t1.add_required_resource(w)
    t2.add_required_resource(w)
    ps.ObjectiveMinimizeMakespan()
    res = []
    for optimizer in ("incremental", "optimize"):
        solver = ps.SchedulingSolver(problem=pb, optimizer=optimizer)
        sol = solver.solve()
        res.append(f"{optimizer}: " + describe(sol))
        sol2 = solver.find_another_solution()
        res.append(f"{optimizer} another: " + describe(sol2))
    return res


class _StubSolver:
    def __init__(self, result):
        self.result = result

    def check(self):
        return self.result

    def reason_unknown(self):
        return "canceled (stub)"


def case_check_sat_direct():
    pb = ps.SchedulingProblem(name="CheckSat", horizon=2)
    ps.FixedDurationTask(name="t1", duration=3)
    res = []
    for result in (z3.sat, z3.unsat, z3.unknown):
        for better in (False, True, None, 0, 1, "yes"):
            solver = ps.SchedulingSolver(problem=pb)
            solver._solver = _StubSolver(result)
            buf = io.StringIO()
            with contextlib.redirect_stdout(buf):
                r, t = solver.check_sat(better)
            res.append(f"{result} better={better!r} -> {r} {type(t).__name__} printed={buf.getvalue()!r}")
    # default argument, real solver, unsatisfiable problem
    solver = ps.SchedulingSolver(problem=pb)
    solver.initialize()
    buf = io.StringIO()
    with contextlib.redirect_stdout(buf):
        r, t = solver.check_sat()
        s = solver.solve()
    res.append(f"real -> {r} {s!r} printed={mask(buf.getvalue())!r}")
    return res


CASES = [
    ("single fixed task, exhaustive", case_single_fixed),
    ("optional fixed + zero duration, exhaustive", case_optional_fixed),
    ("variable duration + precedence + release/due", case_variable_precedence),
    ("another solution for a variable", case_for_variable),
    ("requests before solve", case_before_solve),
    ("delta_time and start_time", case_times_with_start),
    ("delta_time without start_time", case_times_no_start),
    ("workers, select workers, cumulative worker", case_workers),
    ("buffer and indicator", case_buffer_indicator),
    ("debug mode enumeration", case_debug_mode),
    ("debug mode unsat core", case_debug_unsat),
    ("append_z3_assertion direct calls", case_append_direct),
    ("incremental / optimize solvers", case_incremental_optimizer),
    ("check_sat direct calls", case_check_sat_direct),
]

if __name__ == "__main__":
    for title, fn in CASES:
        run(title, fn)
