#!/usr/bin/env python3
"""usage: replay_seeds.py [--all-checks]  - re-evaluates every stored seeded change on /repo's HEAD + patch (scratch worktree
outside /repo and /verif, removed afterwards): the seed's own property check must exit 1, and no check may exit 2"""
import json, os, subprocess, sys, tempfile, glob
HERE = os.path.dirname(os.path.dirname(os.path.abspath(__file__)))
all_checks = "--all-checks" in sys.argv
bad = 0
for d in sorted(glob.glob(os.path.join(HERE, "seeded", "*"))):
    meta = json.load(open(os.path.join(d, "meta.json")))
    prop = meta["property"]
    scratch = tempfile.mkdtemp(prefix="psverif_replay_")
    os.rmdir(scratch)
    subprocess.run(["git", "-C", "/repo", "worktree", "add", "-q", "--detach", scratch, "HEAD"], check=True)
    try:
        ap = subprocess.run(["git", "-C", scratch, "apply", os.path.join(d, "patch.diff")], capture_output=True, text=True)
        if ap.returncode != 0:
            print(f"{os.path.basename(d):16s} patch does not apply to HEAD: {ap.stderr.strip()[:120]}")
            bad += 1
            continue
        props = [f"C{i:02d}" for i in range(1, 20)] if all_checks else [prop]
        res = {}
        for p in props:
            r = subprocess.run([os.path.join(HERE, "check"), p, "--repo", scratch], capture_output=True, text=True)
            res[p] = r.returncode
        own = res[prop]
        errs = [p for p, rc in res.items() if rc == 2]
        print(f"{os.path.basename(d):16s} own check exit {own}" + (f"; reported by {sorted(p for p, rc in res.items() if rc == 1)}" if all_checks else "")
              + (f"; ANALYSIS-ERROR in {errs}" if errs else ""))
        if own != 1 or errs:
            bad += 1
    finally:
        subprocess.run(["git", "-C", "/repo", "worktree", "remove", "--force", scratch])
print("seeds not reported / broken:", bad)
sys.exit(1 if bad else 0)
