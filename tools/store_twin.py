#!/usr/bin/env python3
"""usage: store_twin.py <prop> <worktree> <twin-name> <summary-file> [note]  - copies a confirmed behaviour-preserving refactoring
into /verif/twins/<name>/ (patch.diff, equiv.py, notes.md, meta.json)"""
import json, os, shutil, subprocess, sys
prop, wt, name, summ = sys.argv[1:5]
note = sys.argv[5] if len(sys.argv) > 5 else ""
HERE = os.path.dirname(os.path.dirname(os.path.abspath(__file__)))
dst = os.path.join(HERE, "twins", name)
os.makedirs(dst, exist_ok=True)
diff = subprocess.run(["git", "-C", wt, "diff", "--", "processscheduler"], capture_output=True, text=True).stdout
open(os.path.join(dst, "patch.diff"), "w").write(diff)
for f in ("equiv.py", "notes.md"):
    if os.path.exists(os.path.join(wt, "_twin", f)):
        shutil.copy(os.path.join(wt, "_twin", f), os.path.join(dst, f))
meta = {
    "property": prop,
    "kind": "behaviour-preserving refactoring (twin): every check must stay silent on /repo HEAD + patch",
    "origin": "written by an independent sub-agent given only the property text and a scratch worktree of /repo",
    "confirmed_by_me": open(summ).read().strip().splitlines() if os.path.exists(summ) else [],
    "how_to_replay": f"git -C /repo apply /verif/twins/{name}/patch.diff && tools/run_all.sh; git -C /repo checkout -- processscheduler",
}
if note:
    meta["first_verdict"] = note
json.dump(meta, open(os.path.join(dst, "meta.json"), "w"), indent=1)
print("stored", name)
