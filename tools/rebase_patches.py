#!/usr/bin/env python3
"""usage: rebase_patches.py  - after a `fix:` commit in /repo: every stored patch (seeded/*, twins/*) that no longer applies to HEAD
is re-based with a 3-way merge on a scratch worktree (outside /repo and /verif, removed afterwards) and rewritten; conflicts are
reported and left alone"""
import glob, json, os, subprocess, sys, tempfile
HERE = os.path.dirname(os.path.dirname(os.path.abspath(__file__)))
head = subprocess.run(["git", "-C", "/repo", "log", "--oneline", "-1"], capture_output=True, text=True).stdout.split()[0]
bad = 0
for d in sorted(glob.glob(os.path.join(HERE, "seeded", "*")) + glob.glob(os.path.join(HERE, "twins", "*"))):
    patch = os.path.join(d, "patch.diff")
    scratch = tempfile.mkdtemp(prefix="psverif_rb_"); os.rmdir(scratch)
    subprocess.run(["git", "-C", "/repo", "worktree", "add", "-q", "--detach", scratch, "HEAD"], check=True)
    try:
        if subprocess.run(["git", "-C", scratch, "apply", "--check", patch], capture_output=True).returncode == 0:
            continue
        r = subprocess.run(["git", "-C", scratch, "apply", "--3way", patch], capture_output=True, text=True)
        conflict = subprocess.run(["git", "-C", scratch, "diff", "--name-only", "--diff-filter=U"], capture_output=True, text=True).stdout.strip()
        if r.returncode != 0 or conflict:
            print(f"{os.path.basename(d):18s} CONFLICT: {(r.stderr or conflict)[:160]}"); bad += 1
            continue
        new = subprocess.run(["git", "-C", scratch, "diff", "HEAD", "--", "processscheduler"], capture_output=True, text=True).stdout
        open(patch, "w").write(new)
        mf = os.path.join(d, "meta.json")
        m = json.load(open(mf))
        m["rebased"] = f"patch.diff re-based (3-way) on /repo {head} after a fix: commit changed its context; same change"
        json.dump(m, open(mf, "w"), indent=1)
        print(f"{os.path.basename(d):18s} rebased")
    finally:
        subprocess.run(["git", "-C", "/repo", "worktree", "remove", "--force", scratch])
print("conflicts:", bad)
sys.exit(1 if bad else 0)
