#!/bin/sh
# usage: tools/confirm_seed.sh <worktree>   - confirms a seeded change: demo fails with it / passes without it, suite unchanged
WT="$1"
cd "$WT" || exit 2
git diff -- processscheduler > /tmp/confirm_$(basename $WT).diff
echo "diff: $(git diff --stat -- processscheduler | tail -1)"
/venv/bin/python _seed/demo.py > /tmp/confirm_$(basename $WT).with.log 2>&1; echo "demo WITH change: rc=$?"
git apply -R /tmp/confirm_$(basename $WT).diff || { echo "cannot reverse"; exit 2; }
/venv/bin/python _seed/demo.py > /tmp/confirm_$(basename $WT).without.log 2>&1; echo "demo WITHOUT change: rc=$?"
git apply /tmp/confirm_$(basename $WT).diff || { echo "cannot re-apply"; exit 2; }
/venv/bin/python -m pytest -q -p no:cacheprovider --timeout=900 > /tmp/confirm_$(basename $WT).pytest.log 2>&1
echo "suite WITH change: $(tail -1 /tmp/confirm_$(basename $WT).pytest.log)"
grep -E "^FAILED" /tmp/confirm_$(basename $WT).pytest.log | grep -v plotly | grep -v "test_gantt_plotly\|test_gantt_with_buffers" | head -3
