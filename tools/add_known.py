#!/usr/bin/env python3
"""usage: add_known.py <prop> <rule> <where> <construct> <what_fails> <witness> <why_not_fixed> [also,also]"""
import json, sys
p = "/verif/known_findings.json"
d = json.load(open(p))
prop, rule, where, construct, what, witness, why = sys.argv[1:8]
e = {"property": prop, "rule": rule, "where": where, "construct": construct, "what_fails": what, "witness": witness, "status": "known",
     "why_not_fixed": why}
if len(sys.argv) > 8 and sys.argv[8]:
    e["also"] = sys.argv[8].split(",")
d["findings"].append(e)
json.dump(d, open(p, "w"), indent=1)
print("added", prop, rule, where)
