#!/usr/bin/env python3
"""usage: replay_twins.py  - every stored behaviour-preserving refactoring (twins/<id>/patch.diff) applied to a scratch worktree of
/repo HEAD (outside /repo and /verif, removed afterwards): all 19 checks must exit 0 (no violation, no ANALYSIS-ERROR)"""
import glob, os, subprocess, sys, tempfile
from concurrent.futures import ThreadPoolExecutor
HERE = os.path.dirname(os.path.dirname(os.path.abspath(__file__)))
PROPS = os.environ.get("PROPS", "").split() or [f"C{i:02d}" for i in range(1, 20)]   # PROPS="C06 C08" restricts the replay


def one(d):
    scratch = tempfile.mkdtemp(prefix="psverif_twin_")
    os.rmdir(scratch)
    subprocess.run(["git", "-C", "/repo", "worktree", "add", "-q", "--detach", scratch, "HEAD"], check=True)
    try:
        ap = subprocess.run(["git", "-C", scratch, "apply", os.path.join(d, "patch.diff")], capture_output=True, text=True)
        if ap.returncode != 0:
            return os.path.basename(d), "patch does not apply to HEAD", 1
        bad = []
        for p in PROPS:
            r = subprocess.run([os.path.join(HERE, "check"), p, "--repo", scratch], capture_output=True, text=True)
            if r.returncode != 0:
                bad.append(f"{p}:exit{r.returncode}")
        return os.path.basename(d), ("silent" if not bad else "REPORTED by " + " ".join(bad)), (1 if bad else 0)
    finally:
        subprocess.run(["git", "-C", "/repo", "worktree", "remove", "--force", scratch])


dirs = sorted(glob.glob(os.path.join(HERE, "twins", "*")))
with ThreadPoolExecutor(max_workers=int(os.environ.get("JOBS", "6"))) as ex:
    res = list(ex.map(one, dirs))
for name, verdict, _ in res:
    print(f"{name:16s} {verdict}")
n = sum(b for _, _, b in res)
print("twins reported / broken:", n)
sys.exit(1 if n else 0)
