#!/usr/bin/env python3
"""every `fixed:` line of known_findings.json names a rule and a place: on a worktree of the original snapshot (0ec02cb) the
property's check must still report that rule at that place (the repaired defects are the regression corpus of the rules)"""
import json, os, re, subprocess, sys
HERE = os.path.dirname(os.path.dirname(os.path.abspath(__file__)))
orig = sys.argv[1] if len(sys.argv) > 1 else "/tmp/ps_orig"
k = json.load(open(os.path.join(HERE, "known_findings.json")))
out = {}
bad = 0
for line in k["fixed"]:
    m = re.match(r"fixed: property=(C\d\d) (\w+) ((?:R-[A-Z-]+/?)+) ([\w.]+)", line)
    if not m:
        print("unparsed:", line[:100]); bad += 1; continue
    prop, commit, rule, where = m.groups()
    if prop not in out:
        out[prop] = subprocess.run([os.path.join(HERE, "check"), prop, "--repo", orig], capture_output=True, text=True).stdout
    hit = [l for l in out[prop].splitlines() if any(r_ in l for r_ in rule.split("/")) and (where.split(".")[0] in l or where.split(".")[-1] in l)]
    print(f"{prop} {commit} {rule:18s} {where:55s} {'reported' if hit else 'NOT REPORTED'}")
    bad += 0 if hit else 1
print("not reported:", bad)
sys.exit(1 if bad else 0)
