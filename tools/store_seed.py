#!/usr/bin/env python3
"""usage: store_seed.py <prop> <worktree> <seed-name>  - copies a confirmed seeded change into /verif/seeded/<name>/ and records
what was run (demo with / without the change, suite with the change, verdict of every check on the changed tree)"""
import json, os, re, shutil, subprocess, sys
prop, wt, name = sys.argv[1], sys.argv[2], sys.argv[3]
HERE = os.path.dirname(os.path.dirname(os.path.abspath(__file__)))
dst = os.path.join(HERE, "seeded", name)
os.makedirs(dst, exist_ok=True)
diff = subprocess.run(["git", "-C", wt, "diff", "--", "processscheduler"], capture_output=True, text=True).stdout
open(os.path.join(dst, "patch.diff"), "w").write(diff)
for f in ("demo.py", "notes.md"):
    if os.path.exists(os.path.join(wt, "_seed", f)):
        shutil.copy(os.path.join(wt, "_seed", f), os.path.join(dst, f))
summ = open(f"/tmp/confirm_{prop}.summary").read() if os.path.exists(f"/tmp/confirm_{prop}.summary") else ""
# the verdicts are taken on /repo's current HEAD + the patch (a scratch worktree outside /repo and /verif, removed afterwards)
import tempfile
scratch = tempfile.mkdtemp(prefix="psverif_seed_")
os.rmdir(scratch)
subprocess.run(["git", "-C", "/repo", "worktree", "add", "-q", "--detach", scratch, "HEAD"], check=True)
ap = subprocess.run(["git", "-C", scratch, "apply", os.path.join(dst, "patch.diff")], capture_output=True, text=True)
applies = ap.returncode == 0
verdicts = {}
for p in [f"C{i:02d}" for i in range(1, 20)] if applies else []:
    r = subprocess.run([os.path.join(HERE, "check"), p, "--repo", scratch], capture_output=True, text=True)
    lines = [l for l in r.stdout.splitlines() if not l.startswith(("KNOWN-FINDING", "VIOLATION", "    witness"))]
    if r.returncode != 0:
        verdicts[p] = {"exit": r.returncode, "reports": [re.sub(r"\s+", " ", l)[:260] for l in lines[:-1]][:4]}
subprocess.run(["git", "-C", "/repo", "worktree", "remove", "--force", scratch])
notes = open(os.path.join(dst, "notes.md")).read() if os.path.exists(os.path.join(dst, "notes.md")) else ""
meta = {
    "property": prop,
    "origin": "written by an independent sub-agent given only the property text and a scratch worktree of /repo",
    "files_changed": sorted(set(re.findall(r"^\+\+\+ b/(\S+)", diff, re.M))),
    "needs_to_manifest": (re.search(r"(?is)(needs?|manifest)[^\n]*\n(.{0,600})", notes).group(0)[:700] if re.search(r"(?i)manifest", notes) else notes[:500]),
    "confirmed_by_me": summ.strip().splitlines(),
    "patch_applies_to_repo_head": applies,
    "checks_that_report_it": verdicts,
    "caught_by_its_own_property_check": prop in verdicts and verdicts[prop]["exit"] == 1,
    "how_to_replay": f"git -C /repo apply /verif/seeded/{name}/patch.diff && ./check {prop}; git -C /repo checkout -- processscheduler",
}
json.dump(meta, open(os.path.join(dst, "meta.json"), "w"), indent=1)
print(name, "caught by", sorted(verdicts), "| own check:", meta["caught_by_its_own_property_check"])
