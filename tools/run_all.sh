#!/bin/sh
# usage: tools/run_all.sh [repo-dir] [tier]   - one line per property: exit code and verdict summary
DIR="$(cd "$(dirname "$0")/.." && pwd)"
REPO="${1:-/repo}"
TIER="${2:-quick}"
for p in C01 C02 C03 C04 C05 C06 C07 C08 C09 C10 C11 C12 C13 C14 C15 C16 C17 C18 C19; do
  out=$("$DIR/check" $p --repo "$REPO" --tier "$TIER" 2>&1); rc=$?
  nv=$(printf '%s\n' "$out" | grep -c '^VIOLATION')
  first=$(printf '%s\n' "$out" | grep -v -E '^(VIOLATION|KNOWN-FINDING|    witness)' | head -1 | cut -c1-170)
  echo "$p rc=$rc violations=$nv | $first"
done
