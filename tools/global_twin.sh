#!/bin/sh
# usage: tools/global_twin.sh <transform> [props...]  - applies a whole-package behaviour-preserving transform to a scratch copy of /repo
# (outside /repo and /verif, removed afterwards) and lists every report of every check on it (all of them are false alarms)
T="$1"; shift
PROPS="${*:-C01 C02 C03 C04 C05 C06 C07 C08 C09 C10 C11 C12 C13 C14 C15 C16 C17 C18 C19}"
D=$(mktemp -d /tmp/psverif_gt_XXXXXX)
mkdir -p "$D/processscheduler"; cp /repo/processscheduler/*.py "$D/processscheduler/"; cp -r /repo/docs "$D/docs" 2>/dev/null
cd /verif && /venv/bin/python -c "
import sys; sys.path.insert(0,'/verif')
from sa.selftest import apply_global
r = apply_global('$D', '$T'); print('transform:', r or 'applied')"
for p in $PROPS; do
  ./check $p --repo "$D" 2>&1 | grep -v "^KNOWN-FINDING\|^    witness\|^VIOLATION" | grep -v " 0 violation(s)" | cut -c1-420 | sed "s/^/$p| /"
done
[ -n "$KEEP" ] && echo "kept $D" || rm -rf "$D"
