#!/usr/bin/env python3
"""Regenerates MANIFEST.json from rules/registry.py (checks) and properties.jsonl (not_applicable)."""
import json, os, sys
HERE = os.path.dirname(os.path.dirname(os.path.abspath(__file__)))
sys.path.insert(0, HERE)
from rules import registry

props = [json.loads(l) for l in open(os.path.join(HERE, "properties.jsonl"))]
checks = []
for pid in sorted(registry.PROPERTIES):
    spec = registry.PROPERTIES[pid]
    checks.append({
        "property_id": pid,
        "quick_cmd": f"./check {pid}",
        "thorough_cmd": f"./check {pid} --tier thorough",
        "evidence_file": f"evidence/{pid}.json",
        "replay_cmd_template": f"./check {pid} --replay {{path}}",
        "engine": "sa",
        "level_claimed": {"category": "other", "text": spec["level_text"], "design_ref": spec.get("design_ref", "DESIGN.md §4")},
        "level_note": spec["level_note"],
        "technique": spec.get("technique", "static analysis: AST-to-term IR extraction + canonical forms / order-type enumeration"),
    })
na = []
for p in props:
    if p["id"] not in registry.PROPERTIES:
        na.append({"property_id": p["id"], "reason": registry.NOT_APPLICABLE.get(p["id"], "check under construction in this round (static-analysis rules not landed yet)")})
m = {
    "version": 1,
    "setup_cmd": "/venv/bin/python -m compileall -q sa rules selftest >/dev/null 2>&1 || python3 -m compileall -q sa rules selftest",
    "hooks": {"guard": "PROCESSSCHEDULER_VERIF", "enable": "none needed: nothing in /repo is instrumented or executed by the checks",
              "baseline_off_cmd": "cd /repo && /venv/bin/python -m pytest -ra -q -p no:cacheprovider --timeout=900 --continue-on-collection-errors",
              "source_commits": [], "add_only": True},
    "engines": [{"name": "sa", "path": "sa/", "serves_properties": sorted(registry.PROPERTIES),
                 "kind_free_text": "pure-stdlib static analyser: project model (E1), encoder-IR extractor (E2), normal forms and finite decision domains (E3), CFG/typestate rules (E4), self-validation on seeded variants (E8)"}],
    "checks": checks,
    "notes": registry.NOTES,
    "not_applicable": na,
}
json.dump(m, open(os.path.join(HERE, "MANIFEST.json"), "w"), indent=1)
print(f"{len(checks)} checks, {len(na)} not applicable")
