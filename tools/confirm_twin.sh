#!/bin/sh
# usage: tools/confirm_twin.sh <worktree>  - confirms a behaviour-preserving refactoring: its own equiv.py prints the same with
# the change and with the change reversed, and the suite result is unchanged
WT="$1"; B=$(basename $WT)
cd "$WT" || exit 2
git diff -- processscheduler > /tmp/ctw_$B.diff
echo "diff: $(git diff --stat -- processscheduler | tail -1)"
/venv/bin/python _twin/equiv.py > /tmp/ctw_$B.with.out 2>/dev/null; echo "equiv WITH change: rc=$?"
git apply -R /tmp/ctw_$B.diff || { echo "cannot reverse"; exit 2; }
/venv/bin/python _twin/equiv.py > /tmp/ctw_$B.without.out 2>/dev/null; echo "equiv WITHOUT change: rc=$?"
git apply /tmp/ctw_$B.diff || { echo "cannot re-apply"; exit 2; }
if cmp -s /tmp/ctw_$B.with.out /tmp/ctw_$B.without.out; then echo "equiv outputs identical: yes ($(wc -l < /tmp/ctw_$B.with.out) lines)"; else echo "equiv outputs identical: NO ($(diff /tmp/ctw_$B.with.out /tmp/ctw_$B.without.out | wc -l) diff lines)"; fi
/venv/bin/python -m pytest -q -p no:cacheprovider --timeout=900 > /tmp/ctw_$B.pytest.log 2>&1
echo "suite WITH change: $(tail -1 /tmp/ctw_$B.pytest.log)"
rm -f excavator_colors.xlsx excavator_nb.xlsx tst.csv
