"""C05 demo 2 - UnorderedTaskGroup / OrderedTaskGroup bound the start/end of an
optional task even when that task is NOT scheduled (its start/end are then the
internal negative "point in the past").  docs/task_constraints.md: "If the
task(s) is (are) optional(s), all these constraints apply only if the task is
scheduled."  The valid schedule "B left out" is lost.

Run:  cd /tmp/h1_C05 && /venv/bin/python _hunt/demo_2.py
exit 1 = property violated, exit 0 = library behaves as documented.
"""
import contextlib
import io
import os
import sys

sys.path.insert(0, "/repo")
import processscheduler as ps

HORIZON = 20
DUR = {"A": 3, "B": 3}
OPTIONAL = {"A": False, "B": True}
GROUP_INTERVAL = (5, 10)  # both tasks need worker W: 3 + 3 > 10 - 5


def candidate_is_valid(schedule):
    """schedule: {name: None | (start, end)}; documented semantics only."""
    scheduled = {}
    for name, interval in schedule.items():
        if interval is None:
            if not OPTIONAL[name]:
                return False  # mandatory tasks must be scheduled
            continue
        start, end = interval
        if not (0 <= start and end - start == DUR[name] and end <= HORIZON):
            return False
        scheduled[name] = interval
    # the single Worker W processes one task at a time
    items = list(scheduled.values())
    for i in range(len(items)):
        for k in range(i + 1, len(items)):
            (s1, e1), (s2, e2) = items[i], items[k]
            if not (s2 >= e1 or s1 >= e2):
                return False
    # group: every *scheduled* task of the group lies in the time interval
    low, up = GROUP_INTERVAL
    return all(low <= s and e <= up for s, e in scheduled.values())


def build(group_class):
    pb = ps.SchedulingProblem(name=f"demo2_{group_class.__name__}", horizon=HORIZON)
    worker = ps.Worker(name="W")
    a = ps.FixedDurationTask(name="A", duration=DUR["A"])
    b = ps.FixedDurationTask(name="B", duration=DUR["B"], optional=True)
    a.add_required_resource(worker)
    b.add_required_resource(worker)
    group_class(list_of_tasks=[a, b], time_interval=GROUP_INTERVAL)
    return pb, a, b


def solve(pb):
    out = io.StringIO()
    with contextlib.redirect_stdout(out):
        solution = ps.SchedulingSolver(problem=pb).solve()
    return solution, out.getvalue()


def main():
    candidate = {"A": (5, 8), "B": None}
    assert candidate_is_valid(candidate)
    # the checker does reject what the docs forbid
    assert not candidate_is_valid({"A": (5, 8), "B": (8, 11)})
    assert not candidate_is_valid({"A": (5, 8), "B": (6, 9)})

    violated = False
    for group_class in (ps.UnorderedTaskGroup, ps.OrderedTaskGroup):
        # 1. the problem as it is
        pb, a, b = build(group_class)
        solution, log = solve(pb)
        if not solution and "no solution exists" in log:
            print(f"VIOLATION ({group_class.__name__}): {candidate} is valid "
                  "(B optional and left out, A inside [5,10]) but the solver "
                  "reports 'no solution exists'.")
            violated = True
        # 2. the candidate pinned
        pb, a, b = build(group_class)
        ps.TaskStartAt(task=a, value=candidate["A"][0])
        ps.OptionalTaskForceSchedule(task=b, to_be_scheduled=False)
        solution, log = solve(pb)
        if not solution and "no solution exists" in log:
            print(f"VIOLATION ({group_class.__name__}): pinned candidate "
                  f"{candidate} is rejected ('no solution exists').")
            violated = True
    sys.exit(1 if violated else 0)


if __name__ == "__main__":
    main()
