"""C18 / clause "every well-formed element is accepted".

docs/resource_constraints.md: ResourceNonDelay -> "all tasks processed by this
resource will be contiguous in the schedule".  docs/task_constraints.md:
TasksContiguous -> the tasks of the list are scheduled contiguously.
IndicatorResourceIdle -> sum of the gaps between the consecutive tasks of a resource.
A resource that is assigned to ONE task (a legal, assigned resource), or a
CumulativeWorker assigned to several tasks (the declared type of the `resource`
field is Union[Worker, CumulativeWorker]) is a well-formed argument.
"""
import os, sys, io, contextlib

sys.path.insert(0, "/repo")
import processscheduler as ps


def quiet_solve(pb):
    with contextlib.redirect_stdout(io.StringIO()):
        return ps.SchedulingSolver(problem=pb).solve()


def gaps_of(solution, resource_name):
    """idle time between consecutive busy intervals of a resource, recomputed from the solution"""
    spans = sorted(
        (t.start, t.end)
        for t in solution.tasks.values()
        if resource_name in t.assigned_resources and t.scheduled
    )
    return sum(max(0, b[0] - a[1]) for a, b in zip(spans, spans[1:]))


def one_task_model():
    pb = ps.SchedulingProblem(name="demo4_one", horizon=10)
    t = ps.FixedDurationTask(name="T", duration=3)
    w = ps.Worker(name="W")
    t.add_required_resource(w)
    return pb, t, w


def cumulative_model():
    pb = ps.SchedulingProblem(name="demo4_cumul", horizon=10)
    t1 = ps.FixedDurationTask(name="T1", duration=3)
    t2 = ps.FixedDurationTask(name="T2", duration=3)
    cw = ps.CumulativeWorker(name="CW", size=2)
    t1.add_required_resource(cw)
    t2.add_required_resource(cw)
    return pb, (t1, t2), cw


# premise, checked independently: the model is feasible and a schedule exists in
# which the documented meaning of the element holds (no idle time on the resource),
# so the element is meaningful and satisfiable, i.e. well-formed.
pb, t, w = one_task_model()
sol = quiet_solve(pb)
assert sol, "base model should be feasible"
assert len(w.get_busy_intervals()) == 1  # the worker IS assigned to a task
assert gaps_of(sol, "W") == 0  # non-delay / contiguity / idle==0 trivially hold

CASES = [
    ("ResourceNonDelay(worker with 1 task)", one_task_model, lambda t, r: ps.ResourceNonDelay(resource=r)),
    ("IndicatorResourceIdle(worker with 1 task)", one_task_model, lambda t, r: ps.IndicatorResourceIdle(resource=r)),
    ("TasksContiguous([single task])", one_task_model, lambda t, r: ps.TasksContiguous(list_of_tasks=[t])),
    ("ResourceNonDelay(CumulativeWorker with 2 tasks)", cumulative_model, lambda t, r: ps.ResourceNonDelay(resource=r)),
    ("IndicatorResourceIdle(CumulativeWorker with 2 tasks)", cumulative_model, lambda t, r: ps.IndicatorResourceIdle(resource=r)),
    ("ResourceTasksDistance(CumulativeWorker with 2 tasks)", cumulative_model,
     lambda t, r: ps.ResourceTasksDistance(resource=r, distance=1, mode="min")),
]

violations = []
for label, model, make in CASES:
    pb, t, r = model()
    try:
        make(t, r)
    except Exception as exc:
        print(f"REJECTED  {label}: {type(exc).__name__}: {exc}")
        violations.append(label)
    else:
        print(f"accepted  {label}")

# control: the very same elements are accepted with two tasks on a plain worker
pb = ps.SchedulingProblem(name="demo4_ctrl", horizon=10)
a = ps.FixedDurationTask(name="A", duration=3)
b = ps.FixedDurationTask(name="B", duration=3)
w = ps.Worker(name="W")
a.add_required_resource(w)
b.add_required_resource(w)
ps.ResourceNonDelay(resource=w)
ps.TasksContiguous(list_of_tasks=[a, b])
ps.IndicatorResourceIdle(resource=w)
print("control  : same elements accepted for a worker with 2 tasks")

if violations:
    print("VIOLATION: well-formed elements rejected at creation: " + "; ".join(violations))
    sys.exit(1)
print("ok")
sys.exit(0)
