"""C04 / interruption clause.

ResourcePeriodicallyInterrupted with a `start` (or `end`) activity window:
the exemption "this task lies before `start`" is evaluated for ONE task only
(the last one assigned to the worker) and, when true, switches the whole
constraint off for EVERY task of that worker.

Worker w, interruptions (1,3) repeated every 5 -> (1,3) (6,8) (11,13) ...,
active after start=4.  Task A (fixed duration 3) pinned at 5 -> [5,8) overlaps
the interruption (6,8), which lies entirely after start=4.
 - A alone: the library (rightly) reports "no solution".
 - A plus an unrelated task B at [0,1) on the same worker: the library returns
   the very same placement of A.
"""
import contextlib, io, os, sys
sys.path.insert(0, "/repo")
import processscheduler as ps


def solve(problem, **kwargs):
    """solve quietly with the default solver settings"""
    with contextlib.redirect_stdout(io.StringIO()), contextlib.redirect_stderr(io.StringIO()):
        return ps.SchedulingSolver(problem=problem, **kwargs).solve()


def overlap(s, e, a, b):
    """length of the intersection of [s, e) and [a, b)"""
    return max(0, min(e, b) - max(s, a))

PERIOD, OFFSET, START, END = 5, 0, 4, None
INTERVALS = [(1, 3)]
HORIZON = 12


def active_windows():
    """interruption windows that lie entirely inside the activity window"""
    out = []
    for k in range(-5, 10):
        for lb, ub in INTERVALS:
            a, b = lb + OFFSET + k * PERIOD, ub + OFFSET + k * PERIOD
            if a < START or (END is not None and b > END):
                continue
            if b <= 0 or a >= HORIZON:
                continue
            out.append((a, b))
    return out


def build(with_b):
    pb = ps.SchedulingProblem(name="demo1_%s" % with_b, horizon=HORIZON)
    w = ps.Worker(name="w")
    a = ps.FixedDurationTask(name="A", duration=3)
    a.add_required_resource(w)
    if with_b:
        b = ps.FixedDurationTask(name="B", duration=1)
        b.add_required_resource(w)  # B is the last task assigned to w
        ps.TaskStartAt(task=b, value=0)
    ps.ResourcePeriodicallyInterrupted(
        resource=w,
        list_of_time_intervals=INTERVALS,
        period=PERIOD,
        offset=OFFSET,
        start=START,
        end=END,
    )
    ps.TaskStartAt(task=a, value=5)
    return pb


def check(solution):
    """fixed-duration tasks never overlap an active interruption window"""
    errors = []
    for name, s, e in solution.resources["w"].assignments:
        for a, b in active_windows():
            if overlap(s, e, a, b) > 0:
                errors.append(
                    f"fixed-duration task {name} [{s},{e}) overlaps interruption ({a},{b}) "
                    f"(period {PERIOD}, active from {START})"
                )
    return errors


sol_alone = solve(build(False))
print("A alone          ->", "no solution" if not sol_alone else
      {n: (t.start, t.end) for n, t in sol_alone.tasks.items()})
sol = solve(build(True))
print("A + B at [0,1)   ->", "no solution" if not sol else
      {n: (t.start, t.end) for n, t in sol.tasks.items()})

errors = []
for s_ in (sol_alone, sol):
    if s_:
        errors += check(s_)
if errors:
    print("VIOLATION of C04 (interruption intervals are never overlapped by fixed-duration tasks):")
    for e in errors:
        print("  -", e)
    sys.exit(1)
print("OK: no returned schedule overlaps an interruption")
sys.exit(0)
