"""C08 / total resource cost for a polynomial (non linear) cost function.

IndicatorResourceCost approximates the cost accumulated over a busy interval by
ONE trapeze spanning the whole interval, (C(start)+C(end))*(end-start)/2.  That
is exact for constant/linear costs only; for C(t)=t^2 it is off by far more
than integer rounding.
"""
import contextlib, io, os, sys, warnings
from fractions import Fraction
sys.path.insert(0, "/repo")
import processscheduler as ps
warnings.simplefilter("ignore")

COEFFS = [1, 0, 0]  # C(t) = t^2, the documented form a_n t^n + ... + a_0
pb = ps.SchedulingProblem(name="polycost", horizon=6)
a = ps.FixedDurationTask(name="a", duration=6)
w = ps.Worker(name="w", cost=ps.PolynomialFunction(coefficients=COEFFS))
a.add_required_resource(w)
ind = ps.IndicatorResourceCost(list_of_resources=[w])

with contextlib.redirect_stdout(io.StringIO()):
    sol = ps.SchedulingSolver(problem=pb).solve()
if not sol:
    print("no solution"); sys.exit(1)

def C(t):
    n = len(COEFFS) - 1
    return sum(c * t ** (n - i) for i, c in enumerate(COEFFS))

def antiderivative(t):
    n = len(COEFFS) - 1
    return sum(Fraction(c, n - i + 1) * t ** (n - i + 1) for i, c in enumerate(COEFFS))

integral = left = right = 0
for _, s, e in sol.resources["w"].assignments:
    integral += antiderivative(e) - antiderivative(s)   # cost accumulated continuously
    left += sum(C(t) for t in range(s, e))               # cost charged at the start of each period
    right += sum(C(t) for t in range(s + 1, e + 1))      # cost charged at the end of each period
reported = sol.indicators[ind.name]
print("assignments of w:", sol.resources["w"].assignments)
print(f"reported {ind.name} = {reported}")
print(f"cost function accumulated over the busy time: integral={float(integral)}, "
      f"per-period sums: {left} (period start) / {right} (period end)")
if min(abs(reported - integral), abs(reported - left), abs(reported - right)) > 1:
    print("VIOLATION: reported cost matches no accumulation of C(t) over the busy time")
    sys.exit(1)
print("ok")
