"""C18 / clause "a name already used by an element of the same kind".

Two Indicator elements of one problem must never carry the same name: the
second creation has to fail, as it does for tasks, workers, constraints,
buffers, objectives and for indicators that are named by the user.
"""
import os, sys, io, contextlib

sys.path.insert(0, "/repo")
import processscheduler as ps

problem = ps.SchedulingProblem(name="demo2", horizon=10)
task_a = ps.FixedDurationTask(name="A", duration=3, due_date=5, due_date_is_deadline=False)
task_b = ps.FixedDurationTask(name="B", duration=4, due_date=5, due_date_is_deadline=False)
worker = ps.Worker(name="W")
task_a.add_required_resource(worker)
task_b.add_required_resource(worker)

# reference behaviour: a user-named indicator twice -> second is refused
ps.IndicatorFromMathExpression(name="I", expression=task_a._end)
try:
    ps.IndicatorFromMathExpression(name="I", expression=task_b._end)
    print("note: even a user-named duplicate indicator is accepted")
except ValueError as exc:
    print("reference: user-named duplicate refused ->", exc)

created = []  # (label, element) for every creation that did NOT raise


def create(label, factory):
    try:
        elem = factory()
    except Exception as exc:
        print(f"rejected  {label}: {type(exc).__name__}: {exc}")
    else:
        created.append((label, elem))
        print(f"accepted  {label}  -> name {elem.name!r}")


create("IndicatorResourceUtilization(W) #1", lambda: ps.IndicatorResourceUtilization(resource=worker))
create("IndicatorResourceUtilization(W) #2", lambda: ps.IndicatorResourceUtilization(resource=worker))
# a third element of the same kind, explicitly given the name already in use,
# and measuring something different
create(
    "IndicatorFromMathExpression(name='Utilization (W)')",
    lambda: ps.IndicatorFromMathExpression(name="Utilization (W)", expression=task_b._end + 1000),
)
create("IndicatorTardiness() #1", lambda: ps.IndicatorTardiness())
create("IndicatorTardiness() #2", lambda: ps.IndicatorTardiness())

# checker: recompute name uniqueness over the accepted elements
seen, clashes = {}, []
for label, elem in created:
    if elem.name in seen:
        clashes.append((elem.name, seen[elem.name], label))
    else:
        seen[elem.name] = label

if clashes:
    with contextlib.redirect_stdout(io.StringIO()):
        solution = ps.SchedulingSolver(problem=problem).solve()
    n_model = len(problem.indicators)
    n_reported = len(solution.indicators) if solution else None
    print(f"indicators held by the problem: {n_model}, reported by the solution: {n_reported}")
    for name, first, second in clashes:
        print(f"VIOLATION: indicator name {name!r} used by {first!r} was accepted again for {second!r}")
    sys.exit(1)
print("ok: no two accepted indicators share a name")
sys.exit(0)
