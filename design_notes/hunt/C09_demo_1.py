"""C09 demo 1 - an optional task that is NOT scheduled still unloads/loads its buffer.

Property: the level changes only at the start of each unloading task / completion of
each loading task of the schedule.  A task the solver leaves unscheduled does not take
place, so it must not move the level (docs/task.md, "optional" tasks; docs/buffer.md).

Exit status 1 = property violated (unchanged library), 0 = property holds.
"""
import os, sys, io, contextlib

sys.path.insert(0, "/repo")
import processscheduler as ps


def solve(problem):
    with contextlib.redirect_stdout(io.StringIO()):
        return ps.SchedulingSolver(problem=problem).solve()


def expected_levels(solution, initial, loads, unloads):
    """Recompute the level sequence from the reported task placement only."""
    delta = {}
    for name, qty in unloads:
        t = solution.tasks[name]
        if t.scheduled:
            delta[t.start] = delta.get(t.start, 0) - qty
    for name, qty in loads:
        t = solution.tasks[name]
        if t.scheduled:
            delta[t.end] = delta.get(t.end, 0) + qty
    times = sorted(delta)
    levels = [initial]
    for t in times:
        levels.append(levels[-1] + delta[t])
    return times, levels


failures = []

for cls in (ps.NonConcurrentBuffer, ps.ConcurrentBuffer):
    # --- part A: reported levels -------------------------------------------------
    # horizon 3, the optional task lasts 5: it can only be left unscheduled.
    pb = ps.SchedulingProblem(name="A_" + cls.__name__, horizon=3)
    t_opt = ps.FixedDurationTask(name="Opt", duration=5, optional=True)
    t_man = ps.FixedDurationTask(name="Man", duration=2)
    buf = cls(name="B", initial_level=5)
    ps.TaskUnloadBuffer(task=t_opt, buffer=buf, quantity=3)
    ps.TaskLoadBuffer(task=t_man, buffer=buf, quantity=1)
    sol = solve(pb)
    if not sol:
        failures.append(f"{cls.__name__} part A: no solution at all")
    else:
        assert not sol.tasks["Opt"].scheduled
        times, levels = expected_levels(sol, 5, [("Man", 1)], [("Opt", 3)])
        got = sol.buffers["B"]
        if got.level_change_times != times or got.level != levels:
            failures.append(
                f"{cls.__name__} part A: task Opt is reported unscheduled "
                f"(start={sol.tasks['Opt'].start}) but the buffer reports change times "
                f"{got.level_change_times} levels {got.level}; the schedule implies "
                f"times {times} levels {levels}"
            )

    # --- part B: feasibility -------------------------------------------------------
    # lower_bound == initial level: leaving the optional unloading task out is the
    # one legal schedule (level stays 5).  The library answers 'unsatisfiable'.
    pb = ps.SchedulingProblem(name="B_" + cls.__name__, horizon=3)
    t_opt = ps.FixedDurationTask(name="Opt", duration=1, optional=True)
    buf = cls(name="B", initial_level=5, lower_bound=5)
    ps.TaskUnloadBuffer(task=t_opt, buffer=buf, quantity=3)
    sol = solve(pb)
    if not sol:
        failures.append(
            f"{cls.__name__} part B: problem reported unsatisfiable although leaving "
            f"'Opt' unscheduled keeps the level at 5 >= lower_bound 5"
        )
    else:
        times, levels = expected_levels(sol, 5, [], [("Opt", 3)])
        if min(levels) < 5 or sol.buffers["B"].level != levels:
            failures.append(f"{cls.__name__} part B: bad levels {sol.buffers['B'].level}")

    # --- part C: a final level 'reached' by a task that never runs ------------------
    pb = ps.SchedulingProblem(name="C_" + cls.__name__, horizon=3)
    t_opt = ps.FixedDurationTask(name="Opt", duration=5, optional=True)  # cannot run
    buf = cls(name="B", initial_level=0, final_level=4)
    ps.TaskLoadBuffer(task=t_opt, buffer=buf, quantity=4)
    sol = solve(pb)
    if sol:
        times, levels = expected_levels(sol, 0, [("Opt", 4)], [])
        if levels[-1] != 4:
            failures.append(
                f"{cls.__name__} part C: solution returned with Opt unscheduled; the "
                f"real final level is {levels[-1]}, required final_level is 4 "
                f"(library reports {sol.buffers['B'].level} at {sol.buffers['B'].level_change_times})"
            )

if failures:
    print("C09 VIOLATED:")
    for f in failures:
        print(" -", f)
    sys.exit(1)
print("C09 holds on these inputs")
sys.exit(0)
