"""C14 demo 3 - a consistent, collision-free renaming changes the verdict, because
z3 symbols derived from different elements can coincide.

Problem: horizon 10, one worker, one task of duration 2 that needs the worker, and a
second, completely unrelated task of duration 3 (no resource, no constraint).
Trivially feasible (e.g. first task [0,2], second task [0,3]).

Names, run 1: worker "W", tasks "T" and "U"
Names, run 2: worker "W", tasks "T" and "W_busy_T"      (three distinct names again)

In run 2 the start/end variables of task "W_busy_T" are called W_busy_T_start /
W_busy_T_end, which are exactly the names of the busy interval of worker "W" for
task "T" (task.py, add_required_resource).  The unrelated task is thereby silently
synchronised with task "T", and 2 != 3 makes the problem "infeasible".

Exit status 1 = property violated, 0 = fine.
"""
import contextlib
import io
import os
import sys

sys.path.insert(0, "/repo")
import processscheduler as ps  # noqa: E402

HORIZON = 10
DUR_FIRST = 2
DUR_SECOND = 3


def library_solution(worker_name, first_name, second_name):
    pb = ps.SchedulingProblem(name="RenamingDemo", horizon=HORIZON)
    worker = ps.Worker(name=worker_name)
    first = ps.FixedDurationTask(name=first_name, duration=DUR_FIRST)
    ps.FixedDurationTask(name=second_name, duration=DUR_SECOND)
    first.add_required_resource(worker)
    solver = ps.SchedulingSolver(problem=pb)
    with contextlib.redirect_stdout(io.StringIO()):
        return solver.solve()


def reference_verdict():
    """Search a valid schedule from the documented meaning of the elements."""
    for s1 in range(HORIZON + 1):
        for s2 in range(HORIZON + 1):
            e1, e2 = s1 + DUR_FIRST, s2 + DUR_SECOND
            # the worker only processes the first task: nothing else to respect
            if e1 <= HORIZON and e2 <= HORIZON:
                return True
    return False


def main():
    expected = reference_verdict()
    names_1 = ("W", "T", "U")
    names_2 = ("W", "T", "W_busy_T")
    for names in (names_1, names_2):
        if len(set(names)) != 3:
            raise AssertionError("the names must be collision free")
    v1 = bool(library_solution(*names_1))
    v2 = bool(library_solution(*names_2))
    print(f"reference verdict: feasible={expected}")
    print(f"names {names_1}: feasible={v1}")
    print(f"names {names_2}: feasible={v2}")
    failed = False
    if v1 != v2:
        print("VIOLATION: a collision-free renaming changes the feasibility verdict")
        failed = True
    if v1 != expected or v2 != expected:
        print("VIOLATION: a verdict differs from the documented meaning")
        failed = True
    return 1 if failed else 0


if __name__ == "__main__":
    sys.exit(main())
