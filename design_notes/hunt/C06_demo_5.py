"""C06 demo 5 - an optional task that is not scheduled still "occupies" a worker it requires
with delay_in / early_out: it is reported as assigned to the worker, it is counted by
IndicatorNumberTasksAssigned and it subtracts time from the utilization / cost of the worker.

Property clause: a task reported as not scheduled "occupies no worker ... contributes to no indicator".

Exit status 1 when the property is violated, 0 otherwise.
"""
import contextlib
import io
import os
import sys

sys.path.insert(0, "/repo")
import processscheduler as ps  # noqa: E402


def solve(problem, **kw):
    with contextlib.redirect_stdout(io.StringIO()):
        return ps.SchedulingSolver(problem=problem, **kw).solve()


COST = 5
HORIZON = 20
pb = ps.SchedulingProblem(name="delay_in", horizon=HORIZON)
w = ps.Worker(name="W", cost=ps.ConstantFunction(value=COST))
t = ps.FixedDurationTask(name="T", duration=6, optional=True)
a = ps.FixedDurationTask(name="A", duration=4)
# the worker joins T three periods after its start and leaves one period before its end
t.add_required_resource(w, delay_in=3, early_out=1)
a.add_required_resource(w)
ps.OptionalTaskForceSchedule(task=t, to_be_scheduled=False)
nb = ps.IndicatorNumberTasksAssigned(resource=w)
ut = ps.IndicatorResourceUtilization(resource=w)
co = ps.IndicatorResourceCost(list_of_resources=[w])
sol = solve(pb)

failures = []
if not sol:
    failures.append("no solution")
else:
    # independent recomputation from the reported schedule: only scheduled tasks count
    busy = []  # busy intervals of W
    for name, (d_in, e_out) in {"T": (3, 1), "A": (0, 0)}.items():
        ts = sol.tasks[name]
        if ts.scheduled:
            busy.append((ts.start + d_in, ts.end - e_out))
    exp_nb = len(busy)
    exp_time = sum(e - s for s, e in busy)
    exp_ut = (exp_time * 100) // HORIZON
    exp_cost = COST * exp_time

    ts = sol.tasks["T"]
    if not ts.scheduled and ts.assigned_resources:
        failures.append(f"T is reported not scheduled but with assigned_resources={ts.assigned_resources}")
    for label, ind, exp in (("number of tasks assigned", nb, exp_nb), ("utilization", ut, exp_ut), ("cost", co, exp_cost)):
        got = sol.indicators[ind.name]
        if got != exp:
            failures.append(f"{label} of W: only {[n for n, x in sol.tasks.items() if x.scheduled]} are scheduled, "
                            f"expected {exp}, library reports {got}")

if failures:
    print("C06 VIOLATED (worker with delay_in/early_out):")
    for f in failures:
        print(" -", f)
    sys.exit(1)
print("ok")
sys.exit(0)
