"""C07 demo 2 - optimizer="optimize" returns a non-optimal schedule for a
polynomial objective and reports it as the optimum.

docs/objectives.md: "the optimize [solver] is guaranteed to return the optimal value".
docs/indicator.md explicitly allows polynomial indicator expressions
("(task_1._start - task_2._end) ** 2") and docs/resource.md documents
PolynomialFunction costs to be minimised.  z3.Optimize is incomplete on
non-linear integer objectives: check() answers `sat` with a model that is not
optimal, and SchedulingSolver.solve() returns it unchecked.

Two sub-cases, each verified by exhaustive enumeration of all valid schedules:
  A. user indicator (t1.start-6)^2 + (t2.start-6)^2, t1/t2 must not overlap
  B. one task on a worker whose cost is the polynomial t^2 - 10 t + 30
"""
import contextlib, io, itertools, os, sys, warnings

sys.path.insert(0, "/repo")
import processscheduler as ps

warnings.simplefilter("ignore")


def run(builder, optimizer):
    pb = builder()
    solver = ps.SchedulingSolver(problem=pb, optimizer=optimizer)
    with contextlib.redirect_stdout(io.StringIO()):
        sol = solver.solve()
    assert sol, f"{optimizer}: no solution returned"
    return sol


# ---------------------------------------------------------------- case A
H_A, D1, D2 = 15, 3, 2


def build_a():
    ps.SchedulingProblem(name="PolyIndicator", horizon=H_A)
    t1 = ps.FixedDurationTask(name="t1", duration=D1)
    t2 = ps.FixedDurationTask(name="t2", duration=D2)
    ps.TasksDontOverlap(task_1=t1, task_2=t2)
    ind = ps.IndicatorFromMathExpression(
        name="SqDist", expression=(t1._start - 6) ** 2 + (t2._start - 6) ** 2
    )
    ps.ObjectiveMinimizeIndicator(target=ind)
    return ps.base.active_problem


def value_a(sol):
    s1, s2 = sol.tasks["t1"].start, sol.tasks["t2"].start
    e1, e2 = sol.tasks["t1"].end, sol.tasks["t2"].end
    # validity of the returned schedule
    assert e1 - s1 == D1 and e2 - s2 == D2 and 0 <= s1 and 0 <= s2
    assert e1 <= H_A and e2 <= H_A and (e1 <= s2 or e2 <= s1)
    return (s1 - 6) ** 2 + (s2 - 6) ** 2


best_a = min(
    (s1 - 6) ** 2 + (s2 - 6) ** 2
    for s1, s2 in itertools.product(range(H_A - D1 + 1), range(H_A - D2 + 1))
    if s1 + D1 <= s2 or s2 + D2 <= s1
)

# ---------------------------------------------------------------- case B
H_B, D_B = 12, 2


def cost_fn(t):
    return t * t - 10 * t + 30


def build_b():
    ps.SchedulingProblem(name="PolyCost", horizon=H_B)
    w = ps.Worker(name="w", cost=ps.PolynomialFunction(coefficients=[1, -10, 30]))
    a = ps.FixedDurationTask(name="a", duration=D_B)
    a.add_required_resource(w)
    ps.ObjectiveMinimizeResourceCost(list_of_resources=[w])
    return ps.base.active_problem


def trapezoid(s, e):
    # cost of a busy interval for a non constant cost function: area of the trapeze
    # (cost(start) + cost(end)) * length / 2, see IndicatorResourceCost
    return (cost_fn(s) + cost_fn(e)) * (e - s) // 2


def value_b(sol):
    s, e = sol.tasks["a"].start, sol.tasks["a"].end
    assert e - s == D_B and 0 <= s and e <= H_B
    # the library's own report of the cost agrees with the independent formula
    (reported,) = sol.indicators.values()
    assert reported == trapezoid(s, e), (reported, trapezoid(s, e))
    return trapezoid(s, e)


best_b = min(trapezoid(s, s + D_B) for s in range(H_B - D_B + 1))

# ---------------------------------------------------------------- verdict
failed = False
for label, builder, value, best in (
    ("A (polynomial indicator)", build_a, value_a, best_a),
    ("B (polynomial worker cost)", build_b, value_b, best_b),
):
    v_inc = value(run(builder, "incremental"))
    v_opt = value(run(builder, "optimize"))
    print(
        f"case {label}: brute-force minimum = {best}, incremental = {v_inc}, "
        f"optimize = {v_opt}"
    )
    if v_inc != best:
        failed = True
        print(f"  VIOLATION: incremental returned {v_inc}, a valid schedule reaches {best}")
    if v_opt != best:
        failed = True
        print(f"  VIOLATION: optimize returned {v_opt}, a valid schedule reaches {best}")
    if v_inc != v_opt:
        failed = True
        print("  VIOLATION: incremental and optimize disagree on the optimum")

sys.exit(1 if failed else 0)
