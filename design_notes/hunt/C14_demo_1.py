"""C14 demo 1 - the feasibility verdict depends on the order in which two
optional tasks are declared (OrderedTaskGroup sees the "parking" instants).

Problem (same in both runs, only the order of the two task declarations differs):
  horizon 10, optional tasks A and B (duration 2),
  OrderedTaskGroup([A, B])            -- always listed as [A, B]
  OptionalTaskForceSchedule(A, False), OptionalTaskForceSchedule(B, False)

Documented meaning (docs/task_constraints.md: "If the task(s) is (are) optional(s),
all these constraints apply only if the task is scheduled"): with neither task
scheduled nothing is left to order, so the problem is feasible, whatever the
declaration order.

Exit status 1 = property violated, 0 = fine.
"""
import contextlib
import io
import itertools
import os
import sys

sys.path.insert(0, "/repo")
import processscheduler as ps  # noqa: E402

HORIZON = 10
DURATION = 2


def library_verdict(declaration_order):
    pb = ps.SchedulingProblem(name="OrderDemo", horizon=HORIZON)
    tasks = {}
    for name in declaration_order:
        tasks[name] = ps.FixedDurationTask(name=name, duration=DURATION, optional=True)
    ps.OrderedTaskGroup(list_of_tasks=[tasks["A"], tasks["B"]])
    ps.OptionalTaskForceSchedule(task=tasks["A"], to_be_scheduled=False)
    ps.OptionalTaskForceSchedule(task=tasks["B"], to_be_scheduled=False)
    solver = ps.SchedulingSolver(problem=pb)
    with contextlib.redirect_stdout(io.StringIO()):
        solution = solver.solve()
    return bool(solution)


def reference_verdict():
    """Brute force over every candidate schedule, from the documented meaning."""
    starts = range(0, HORIZON - DURATION + 1)
    for sched_a, sched_b in itertools.product([False, True], repeat=2):
        # both tasks are forced to be unscheduled
        if sched_a or sched_b:
            continue
        for start_a, start_b in itertools.product(starts, repeat=2):
            # the order A before B only binds scheduled tasks
            if sched_a and sched_b and not start_a + DURATION <= start_b:
                continue
            return True
    return False


def main():
    expected = reference_verdict()
    verdict_ab = library_verdict(["A", "B"])
    verdict_ba = library_verdict(["B", "A"])
    print(f"reference verdict (documented meaning): feasible={expected}")
    print(f"library, tasks declared A then B      : feasible={verdict_ab}")
    print(f"library, tasks declared B then A      : feasible={verdict_ba}")
    failed = False
    if verdict_ab != verdict_ba:
        print("VIOLATION: permuting the declaration order of two tasks changes the verdict")
        failed = True
    if verdict_ab != expected or verdict_ba != expected:
        print("VIOLATION: at least one verdict differs from the documented meaning")
        failed = True
    return 1 if failed else 0


if __name__ == "__main__":
    sys.exit(main())
