"""C09 demo 4 - the z3 variable of a buffer level is named f"{buffer}_level_{task}" (two
free-form names glued with a literal that may itself occur in a name).  Buffer "S"
accessed by task "level_T" and buffer "S_level" accessed by task "T" therefore share
ONE level variable "S_level_level_T": two unrelated buffers are forced to the same level
and a feasible problem is reported unsatisfiable.  Renaming one task (nothing else
changed) makes it satisfiable again.

Property: every buffer's level sequence starts at ITS initial level and follows ITS
loads/unloads - for all buffers, whatever their (legal, distinct) names.

Exit status 1 = property violated (unchanged library), 0 = property holds.
"""
import os, sys, io, contextlib, itertools

sys.path.insert(0, "/repo")
import processscheduler as ps

HORIZON = 4


def run(task_a_name, task_b_name):
    pb = ps.SchedulingProblem(name=f"p_{task_a_name}_{task_b_name}", horizon=HORIZON)
    ta = ps.FixedDurationTask(name=task_a_name, duration=1)
    tb = ps.FixedDurationTask(name=task_b_name, duration=1)
    b1 = ps.ConcurrentBuffer(name="S", initial_level=10, lower_bound=0)
    b2 = ps.ConcurrentBuffer(name="S_level", initial_level=0, lower_bound=0)
    ps.TaskUnloadBuffer(task=ta, buffer=b1, quantity=1)  # S:       10 -> 9
    ps.TaskLoadBuffer(task=tb, buffer=b2, quantity=1)    # S_level:  0 -> 1
    with contextlib.redirect_stdout(io.StringIO()):
        return ps.SchedulingSolver(problem=pb).solve()


def oracle_levels(start_a, start_b):
    # buffer S: one unload of 1 at start_a ; buffer S_level: one load of 1 at start_b+1
    return {"S": ([start_a], [10, 9]), "S_level": ([start_b + 1], [0, 1])}


failures = []
sol = run("level_T", "T")
feasible_placements = [
    (a, b) for a, b in itertools.product(range(HORIZON), repeat=2)
    if min(oracle_levels(a, b)["S"][1]) >= 0 and min(oracle_levels(a, b)["S_level"][1]) >= 0
]
if not sol:
    if feasible_placements:
        a, b = feasible_placements[0]
        failures.append(
            "buffers 'S'/'S_level' with tasks 'level_T'/'T': library says unsatisfiable, "
            f"but e.g. level_T at {a}, T at {b} gives {oracle_levels(a, b)}"
        )
else:
    want = oracle_levels(sol.tasks["level_T"].start, sol.tasks["T"].start)
    for name, (times, levels) in want.items():
        got = sol.buffers[name]
        if (got.level_change_times, got.level) != (times, levels):
            failures.append(f"buffer {name}: reported {got.level_change_times} {got.level}, expected {times} {levels}")

control = run("lvl_T", "T")  # same problem, one task renamed
print("control run with task renamed 'lvl_T':", "solution found" if control else "unsat")

if failures:
    print("C09 VIOLATED:")
    for f in failures:
        print(" -", f)
    sys.exit(1)
print("C09 holds on these inputs")
sys.exit(0)
