"""C14 demo 8 - the optimal objective value of ObjectiveTasksStartLatest depends on the
declaration order of the tasks as soon as one optional task is left unscheduled.

Problem: horizon 10, task A (mandatory, duration 2), task B (optional, duration 2),
  OptionalTaskForceSchedule(B, False), ObjectiveTasksStartLatest()
Documented meaning (docstring): "maximize the minimum start time, i.e. all the tasks are
scheduled as late as possible".  B is not scheduled, hence has no start time; the
optimum is A.start = 8, and the indicator MinimumStartTime should read 8.
The library takes the minimum over the "parking" instant of B too, which is
-(declaration rank of B): the reported optimum is -2 when B is declared second and -1
when B is declared first.

Exit status 1 = property violated, 0 = fine.
"""
import contextlib
import io
import os
import sys

sys.path.insert(0, "/repo")
import processscheduler as ps  # noqa: E402

HORIZON = 10
DURATION = 2


def library_optimum(declaration_order):
    pb = ps.SchedulingProblem(name="StartLatestDemo", horizon=HORIZON)
    tasks = {}
    for name in declaration_order:
        tasks[name] = ps.FixedDurationTask(
            name=name, duration=DURATION, optional=(name == "B")
        )
    ps.OptionalTaskForceSchedule(task=tasks["B"], to_be_scheduled=False)
    ps.ObjectiveTasksStartLatest()
    solver = ps.SchedulingSolver(problem=pb)
    with contextlib.redirect_stdout(io.StringIO()):
        solution = solver.solve()
    if not solution:
        return None
    return solution.indicators["MinimumStartTime"]


def reference_optimum():
    """max over all valid schedules of the min start among scheduled tasks"""
    best = None
    for start_a in range(0, HORIZON - DURATION + 1):
        scheduled_starts = [start_a]  # B is forced to be unscheduled
        value = min(scheduled_starts)
        best = value if best is None else max(best, value)
    return best


def main():
    expected = reference_optimum()
    v1 = library_optimum(["A", "B"])
    v2 = library_optimum(["B", "A"])
    print(f"reference optimum of the minimum start time: {expected}")
    print(f"declared A then B: {v1}")
    print(f"declared B then A: {v2}")
    failed = False
    if v1 != v2:
        print("VIOLATION: permuting the task declarations changes the optimal objective value")
        failed = True
    if v1 != expected or v2 != expected:
        print("VIOLATION: the optimum differs from the documented meaning")
        failed = True
    return 1 if failed else 0


if __name__ == "__main__":
    sys.exit(main())
