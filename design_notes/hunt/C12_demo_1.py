"""C12 demo 1 - after find_another_solution_for_variable() the enumeration done by
find_another_solution() is no longer exhaustive: it fails while valid, never
returned schedules are left.

Exit status 1 = property violated (unchanged library), 0 = property holds.
"""
import contextlib
import itertools
import os
import sys

sys.path.insert(0, "/repo")
import processscheduler as ps

HORIZON = 2
DURATIONS = {"A": 1, "B": 1}


@contextlib.contextmanager
def quiet():
    with open(os.devnull, "w") as devnull, contextlib.redirect_stdout(devnull):
        yield


def build(pinned=None):
    """two independent tasks of duration 1 in a horizon of 2; `pinned` maps a task
    name to an imposed start (used by the independent validity oracle only)"""
    pb = ps.SchedulingProblem(name="demo1", horizon=HORIZON)
    tasks = {n: ps.FixedDurationTask(name=n, duration=d) for n, d in DURATIONS.items()}
    for n, start in (pinned or {}).items():
        ps.TaskStartAt(task=tasks[n], value=start)
    return pb, tasks


def timing(solution):
    return tuple(
        (n, t.start, t.end, t.scheduled) for n, t in sorted(solution.tasks.items())
    )


def all_valid_timings():
    """independent oracle: every combination of integer starts that keeps each task
    inside [0, horizon]; each candidate is double-checked with a fresh solver on a
    fresh problem where the starts are imposed by TaskStartAt."""
    valid = set()
    for starts in itertools.product(range(HORIZON + 1), repeat=len(DURATIONS)):
        cand = dict(zip(sorted(DURATIONS), starts))
        if any(s + DURATIONS[n] > HORIZON for n, s in cand.items()):
            continue  # documented: every task ends at or before the horizon
        with quiet():
            pb, _ = build(pinned=cand)
            ok = ps.SchedulingSolver(problem=pb).solve()
        assert ok, f"oracle disagreement on {cand}"
        valid.add(tuple((n, s, s + DURATIONS[n], True) for n, s in sorted(cand.items())))
    return valid


def main():
    valid = all_valid_timings()
    with quiet():
        pb, tasks = build()
        solver = ps.SchedulingSolver(problem=pb)
        returned = [timing(solver.solve())]
        # ask once for another value of A's start ...
        sol = solver.find_another_solution_for_variable(tasks["A"]._start)
    if not sol:
        print("unexpected: no other value for A.start")
        return 1
    returned.append(timing(sol))
    # ... then enumerate with find_another_solution until it fails
    while len(returned) <= len(valid) + 2:
        with quiet():
            sol = solver.find_another_solution()
        if not sol:
            break
        returned.append(timing(sol))

    print("valid timings        :", len(valid))
    print("returned, in order   :")
    for r in returned:
        print("   ", r)
    for r in returned:
        if r not in valid:
            print("VIOLATION: an invalid schedule was returned:", r)
            return 1
    left = valid - set(returned)
    if left:
        print(
            "VIOLATION: find_another_solution() failed although these valid schedules, "
            "different from every schedule returned before, are left:"
        )
        for t in sorted(left):
            print("   ", t)
        return 1
    print("OK: the enumeration stopped only when no new valid schedule was left")
    return 0


if __name__ == "__main__":
    sys.exit(main())
