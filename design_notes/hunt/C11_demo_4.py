"""C11 demo 4 - calendar end time of a task does not equal start_time + end * delta_time.

Optional task of duration 3 in a horizon of 2: the solver must leave it unscheduled; it
is reported with start == end (a point in the past) but its end_time is computed as
start_time + duration_time, i.e. 3 periods later than its start_time.

Property: calendar start, end and duration times equal the problem's start time plus
the reported integer times multiplied by the time step.
"""
import contextlib
import io
import os
import sys
from datetime import datetime, timedelta

sys.path.insert(0, "/repo")
import processscheduler as ps

START = datetime(2024, 1, 1, 8, 0)
STEP = timedelta(minutes=15)

with contextlib.redirect_stdout(io.StringIO()):
    pb = ps.SchedulingProblem(name="demo4", horizon=2, start_time=START, delta_time=STEP)
    ps.FixedDurationTask(name="Mandatory", duration=2)
    ps.FixedDurationTask(name="Opt", duration=3, optional=True)
    solution = ps.SchedulingSolver(problem=pb).solve()

if not solution:
    print("no solution returned, nothing to check")
    sys.exit(0)

errors = []
for name, ts in solution.tasks.items():
    exp_start = START + ts.start * STEP
    exp_end = START + ts.end * STEP
    exp_dur = ts.duration * STEP
    if ts.start_time != exp_start:
        errors.append(f"{name}: start={ts.start} -> expected start_time {exp_start}, reported {ts.start_time}")
    if ts.end_time != exp_end:
        errors.append(
            f"{name} (scheduled={ts.scheduled}): end={ts.end} -> expected end_time {exp_end}, reported {ts.end_time}"
        )
    if ts.duration_time != exp_dur:
        errors.append(f"{name}: duration={ts.duration} -> expected duration_time {exp_dur}, reported {ts.duration_time}")
    if ts.end == ts.start and ts.end_time != ts.start_time:
        errors.append(f"{name}: end == start == {ts.start} but end_time {ts.end_time} != start_time {ts.start_time}")

if errors:
    print("C11 VIOLATED:")
    for e in errors:
        print("  -", e)
    sys.exit(1)
print("ok")
sys.exit(0)
