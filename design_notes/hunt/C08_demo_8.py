"""C08 / flow time of a single resource is under-constrained.

ObjectiveMinimizeFlowtimeSingleResource defines flowtime = maxi - mini, but
`mini` is only bounded from above (mini <= every start); the clause that should
pin it to one of the starts tests `task._start <= lower_bound` instead of `>=`
and is an Or of implications, i.e. almost always vacuous.  Any solution that is
not the proven optimum (max_iter / max_time reached) reports a flow time that
is not the flow time of the reported schedule.
"""
import contextlib, io, os, sys, warnings
sys.path.insert(0, "/repo")
import processscheduler as ps
warnings.simplefilter("ignore")

pb = ps.SchedulingProblem(name="flow1", horizon=20)
ts = [ps.FixedDurationTask(name=f"t{i}", duration=2) for i in range(3)]
w = ps.Worker(name="w")
for t, start in zip(ts, (3, 6, 12)):
    t.add_required_resource(w)
    ps.TaskStartAt(task=t, value=start)
ps.ObjectiveMinimizeFlowtimeSingleResource(resource=w)

with contextlib.redirect_stdout(io.StringIO()):
    sol = ps.SchedulingSolver(problem=pb, max_iter=1).solve()
if not sol:
    print("no solution"); sys.exit(1)

assignments = sol.resources["w"].assignments
expected = max(e for _, _, e in assignments) - min(s for _, s, _ in assignments)
(name, reported), = [(k, v) for k, v in sol.indicators.items() if k.startswith("FlowTimeSingleResource")]
print("assignments of w:", assignments)
print(f"reported {name} = {reported}; last end - first start on the reported schedule = {expected}")
if reported != expected:
    print("VIOLATION: reported flow time is not the flow time of the reported schedule")
    sys.exit(1)
print("ok")
