"""C02 / 'every scheduled task occupies each required worker' + 'no worker busy
with two tasks at overlapping times'.

T1 requires worker W (plain assignment) and, in addition, one worker out of
[W, W2].  T2 requires W.  Both tasks last 2 periods: as W is mandatory for both,
they cannot overlap and the minimal makespan is 4.
(Rejecting the second add_required_resource with a ValueError, as the library
does when the two calls are made in the opposite order, would also be fine.)
"""
import contextlib
import io
import os
import sys

sys.path.insert(0, "/repo")
import processscheduler as ps

pb = ps.SchedulingProblem(name="DirectAndSelected")
w = ps.Worker(name="W")
w2 = ps.Worker(name="W2")
t1 = ps.FixedDurationTask(name="T1", duration=2)
t2 = ps.FixedDurationTask(name="T2", duration=2)
try:
    t1.add_required_resource(w)
    t1.add_required_resource(ps.SelectWorkers(list_of_workers=[w, w2], nb_workers_to_select=1))
except ValueError as exc:
    print("input rejected:", exc)
    sys.exit(0)
t2.add_required_resource(w)
mandatory = {"T1": ["W"], "T2": ["W"]}
ps.ObjectiveMinimizeMakespan()

solver = ps.SchedulingSolver(problem=pb)
with contextlib.redirect_stdout(io.StringIO()):
    solution = solver.solve()

if not solution:
    print("no schedule returned (nothing to check)")
    sys.exit(0)

violations = []
for ts in solution.tasks.values():
    print(f"  {ts.name}: [{ts.start},{ts.end}] assigned {ts.assigned_resources}")
for rs in solution.resources.values():
    print(f"  {rs.name}: {rs.assignments}")

# 1. each mandatory worker is busy with the task for the task's whole span
for task_name, names in mandatory.items():
    ts = solution.tasks[task_name]
    for name in names:
        expected = (task_name, ts.start, ts.end)
        if expected not in solution.resources[name].assignments:
            violations.append(
                f"{task_name} requires {name} but {name} is not busy with it on [{ts.start},{ts.end}]"
            )
# 2. tasks that both need W must not overlap
a, b = solution.tasks["T1"], solution.tasks["T2"]
if max(a.start, b.start) < min(a.end, b.end):
    violations.append(
        f"W is mandatory for T1 [{a.start},{a.end}] and T2 [{b.start},{b.end}] which overlap"
    )

if violations:
    print("PROPERTY VIOLATED:")
    for v in violations:
        print("  " + v)
    sys.exit(1)
print("assignments consistent")
sys.exit(0)
