"""C09 demo 2 - one task that unloads a buffer at its start and loads the SAME buffer
at its completion (e.g. takes 3 blanks, gives 1 reject back) makes the problem
'unsatisfiable', for NonConcurrentBuffer and ConcurrentBuffer alike.

Property: the level decreases by the unloaded quantity at the start of each unloading
task and increases by the loaded quantity at the completion of each loading task, for
any number of loading/unloading tasks.  Nothing in the docs restricts a task to one
buffer constraint per buffer (docs/buffer.md: "There is no limitation on the number of
buffers and/or buffer constraints").

Exit status 1 = property violated (unchanged library), 0 = property holds.
"""
import os, sys, io, contextlib, itertools

sys.path.insert(0, "/repo")
import processscheduler as ps

HORIZON = 4
DURATION = 2
INITIAL, UNLOAD, LOAD = 5, 3, 1
LOWER, UPPER = 0, 10


def simulate(start, concurrent):
    """Independent oracle: level sequence for the task placed at `start`, or None."""
    events = {}
    count = {}
    events[start] = events.get(start, 0) - UNLOAD
    count[start] = count.get(start, 0) + 1
    end = start + DURATION
    events[end] = events.get(end, 0) + LOAD
    count[end] = count.get(end, 0) + 1
    if not concurrent and max(count.values()) > 1:
        return None
    times = sorted(events)
    levels = [INITIAL]
    for t in times:
        levels.append(levels[-1] + events[t])
    if min(levels) < LOWER or max(levels) > UPPER:
        return None
    return times, levels


failures = []
for cls, concurrent in ((ps.NonConcurrentBuffer, False), (ps.ConcurrentBuffer, True)):
    pb = ps.SchedulingProblem(name="same_task_" + cls.__name__, horizon=HORIZON)
    task = ps.FixedDurationTask(name="T", duration=DURATION)
    buf = cls(name="B", initial_level=INITIAL, lower_bound=LOWER, upper_bound=UPPER)
    ps.TaskUnloadBuffer(task=task, buffer=buf, quantity=UNLOAD)
    ps.TaskLoadBuffer(task=task, buffer=buf, quantity=LOAD)
    with contextlib.redirect_stdout(io.StringIO()):
        sol = ps.SchedulingSolver(problem=pb).solve()

    legal = {s: simulate(s, concurrent) for s in range(HORIZON - DURATION + 1)}
    legal = {s: v for s, v in legal.items() if v is not None}
    if not sol:
        if legal:
            s, (times, levels) = sorted(legal.items())[0]
            failures.append(
                f"{cls.__name__}: library says unsatisfiable, but T at start={s} is legal: "
                f"change times {times}, levels {levels} (within [{LOWER},{UPPER}])"
            )
    else:
        st = sol.tasks["T"].start
        want = legal.get(st)
        got = sol.buffers["B"]
        if want is None or (got.level_change_times, got.level) != want:
            failures.append(
                f"{cls.__name__}: T at {st}; reported {got.level_change_times} {got.level}, "
                f"expected {want}"
            )

if failures:
    print("C09 VIOLATED:")
    for f in failures:
        print(" -", f)
    sys.exit(1)
print("C09 holds on these inputs")
sys.exit(0)
