"""C05 demo 1 - an optional task that loads/unloads a buffer still moves the
buffer level when it is NOT scheduled, so the (valid) schedule "leave the
optional task out" is lost and the solver says "no solution exists".

Run:  cd /tmp/h1_C05 && /venv/bin/python _hunt/demo_1.py
exit 1 = property violated, exit 0 = library behaves as documented.
"""
import contextlib
import io
import os
import sys

sys.path.insert(0, "/repo")
import processscheduler as ps

HORIZON = 10
INITIAL, LOWER = 0, 0
QUANTITY = 1
DURATION = 2


def candidate_is_valid(schedule):
    """schedule: {"A": None (not scheduled) or (start, end)}.
    Documented meaning (docs/task.md, docs/buffer.md): an optional task may or
    may not be scheduled; an unloading task removes `quantity` at its start
    time; the buffer level must never fall below lower_bound."""
    level = INITIAL
    levels = [level]
    for name, interval in schedule.items():
        if interval is None:
            continue  # a task that is not scheduled does nothing
        start, end = interval
        if not (0 <= start and end - start == DURATION and end <= HORIZON):
            return False
        level -= QUANTITY
        levels.append(level)
    return all(lv >= LOWER for lv in levels)


def run(buffer_class):
    pb = ps.SchedulingProblem(name=f"demo1_{buffer_class.__name__}", horizon=HORIZON)
    task = ps.FixedDurationTask(name="A", duration=DURATION, optional=True)
    buf = buffer_class(name="Bf", initial_level=INITIAL, lower_bound=LOWER)
    ps.TaskUnloadBuffer(task=task, buffer=buf, quantity=QUANTITY)
    out = io.StringIO()
    with contextlib.redirect_stdout(out):
        solution = ps.SchedulingSolver(problem=pb).solve()
    return solution, out.getvalue()


def main():
    candidate = {"A": None}
    assert candidate_is_valid(candidate), "candidate must be valid by the docs"
    # sanity of the checker: scheduling A would empty an empty buffer
    assert not candidate_is_valid({"A": (0, 2)})

    violated = False
    for cls in (ps.NonConcurrentBuffer, ps.ConcurrentBuffer):
        solution, log = run(cls)
        if not solution and "no solution exists" in log:
            print(
                f"VIOLATION ({cls.__name__}): candidate {candidate} is a valid "
                "schedule (optional task A left out, buffer stays at 0 >= "
                "lower_bound 0) but the solver reports 'no solution exists'."
            )
            violated = True
        elif solution:
            print(f"{cls.__name__}: solver found a schedule, A scheduled =",
                  solution.tasks["A"].scheduled)
        else:
            print(f"{cls.__name__}: solver gave up (unknown):", log[-200:])
    sys.exit(1 if violated else 0)


if __name__ == "__main__":
    main()
