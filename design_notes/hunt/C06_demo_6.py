"""C06 demo 6 - negating (or xor-ing) a constraint on an optional task forces the task to be scheduled.

docs/first_order_logic_constraints.md: Not(TaskStartAt(t_1, 3)) is the way to say "task t_1 must NOT
start at time 3" (a "TaskDontStartAt").  docs/task_constraints.md: for optional tasks "these constraints
apply only if the task is scheduled".  Property clause: a task reported as not scheduled "triggers no
constraint"; rules that forbid the scheduling of an optional task are honoured.

An optional task that is not scheduled certainly does not start at 3, yet the library cannot leave it
unscheduled any more.

Exit status 1 when the property is violated, 0 otherwise.
"""
import contextlib
import io
import os
import sys

sys.path.insert(0, "/repo")
import processscheduler as ps  # noqa: E402


def solve(problem, **kw):
    with contextlib.redirect_stdout(io.StringIO()):
        return ps.SchedulingSolver(problem=problem, **kw).solve()


def build(with_optional_task, forbid):
    pb = ps.SchedulingProblem(name="dont_start_at", horizon=10)
    ps.FixedDurationTask(name="A", duration=2)
    if with_optional_task:
        t = ps.FixedDurationTask(name="T", duration=2, optional=True)
        ps.Not(constraint=ps.TaskStartAt(task=t, value=3))
        if forbid:
            ps.OptionalTaskForceSchedule(task=t, to_be_scheduled=False)
    return pb


failures = []
reduced = solve(build(False, False))
assert reduced, "reduced problem must be feasible"

# (1) the user forbids T: must be feasible, T not scheduled
full = solve(build(True, True))
if not full:
    failures.append(
        "Not(TaskStartAt(T, 3)) + OptionalTaskForceSchedule(T, False): NO solution, although the problem with T "
        "deleted is feasible and an unscheduled T does not start at 3"
    )
elif full.tasks["T"].scheduled:
    failures.append("T scheduled although forbidden")

# (2) nobody forbids T: enumerate the schedules, one of them must leave T unscheduled
pb = build(True, False)
with contextlib.redirect_stdout(io.StringIO()):
    solver = ps.SchedulingSolver(problem=pb)
    sol = solver.solve()
    seen_unscheduled = False
    n = 0
    while sol and n < 400:
        n += 1
        if not sol.tasks["T"].scheduled:
            seen_unscheduled = True
            break
        if sol.tasks["T"].start == 3:
            failures.append("T starts at 3")
            break
        sol = solver.find_another_solution()
if not seen_unscheduled:
    failures.append(
        f"Not(TaskStartAt(T, 3)) alone: among all {n} schedules enumerated with find_another_solution none leaves "
        "the optional task T unscheduled: the negated constraint forces T to be scheduled"
    )

if failures:
    print("C06 VIOLATED (Not on a constraint of an optional task):")
    for f in failures:
        print(" -", f)
    sys.exit(1)
print("ok")
sys.exit(0)
