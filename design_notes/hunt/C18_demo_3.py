"""C18 / clauses "rejected at creation" + "every well-formed element is accepted".

An element whose creation FAILED does not exist; its name is therefore not
"already used by an element of the same kind".  After the user repairs the
cause of the failure, the same (now well-formed) creation must be accepted.
"""
import os, sys

sys.path.insert(0, "/repo")
import z3
import processscheduler as ps


def scenario_resource_constraint():
    pb = ps.SchedulingProblem(name="demo3a", horizon=10)
    task = ps.FixedDurationTask(name="T", duration=2)
    worker = ps.Worker(name="W")
    make = lambda: ps.ResourceUnavailable(
        name="W_off", resource=worker, list_of_time_intervals=[(0, 3)]
    )
    repair = lambda: task.add_required_resource(worker)
    return pb, make, repair


def scenario_optional_rule():
    pb = ps.SchedulingProblem(name="demo3b", horizon=10)
    box = {"task": ps.FixedDurationTask(name="T", duration=2)}  # mandatory: ill-formed
    make = lambda: ps.OptionalTaskConditionSchedule(
        name="cond", task=box["task"], condition=z3.Bool("go")
    )

    def repair():
        box["task"] = ps.FixedDurationTask(name="T_opt", duration=2, optional=True)

    return pb, make, repair


def scenario_force_apply():
    pb = ps.SchedulingProblem(name="demo3c", horizon=10)
    task = ps.FixedDurationTask(name="T", duration=2)
    box = {"c": ps.TaskStartAt(name="start0", task=task, value=0)}  # mandatory constraint
    make = lambda: ps.ForceApplyNOptionalConstraints(
        name="force", list_of_optional_constraints=[box["c"]]
    )

    def repair():
        box["c"] = ps.TaskStartAt(name="start1", task=task, value=1, optional=True)

    return pb, make, repair


violations = []
for title, scenario in [
    ("ResourceUnavailable on a not yet assigned worker", scenario_resource_constraint),
    ("OptionalTaskConditionSchedule on a mandatory task", scenario_optional_rule),
    ("ForceApplyNOptionalConstraints over a mandatory constraint", scenario_force_apply),
]:
    pb, make, repair = scenario()
    before = set(pb.constraints)
    try:
        make()
    except Exception as exc:
        print(f"[{title}] ill-formed creation rejected, as required: {type(exc).__name__}")
    else:
        print(f"[{title}] ill-formed creation was ACCEPTED")
        violations.append(title + " (ill-formed accepted)")
        continue
    leftovers = set(pb.constraints) - before
    if leftovers:
        print(f"    but the failed element is now part of the problem: {sorted(leftovers)}")
    repair()
    try:
        make()  # identical call, now well-formed; no successfully created element has that name
    except Exception as exc:
        print(f"    well-formed retry REJECTED: {type(exc).__name__}: {exc}")
        violations.append(title)
    else:
        print("    well-formed retry accepted")

# A rejected element must not take part in the model either.  Here the creation
# raises (the library refuses the repeated interval) and yet the half-built
# constraint stays in the problem and is enforced by the solver.
import io, contextlib


def solvable(with_failed_creation):
    pb = ps.SchedulingProblem(name="demo3d", horizon=10)
    task = ps.FixedDurationTask(name="T", duration=2)
    worker = ps.Worker(name="W")
    task.add_required_resource(worker)
    ps.TaskStartAt(task=task, value=0)
    raised = None
    if with_failed_creation:
        try:
            ps.ResourceUnavailable(resource=worker, list_of_time_intervals=[(0, 3), (0, 3)])
        except Exception as exc:
            raised = exc
    with contextlib.redirect_stdout(io.StringIO()):
        sol = ps.SchedulingSolver(problem=pb).solve()
    return bool(sol), raised


base_ok, _ = solvable(False)
after_ok, raised = solvable(True)
print(f"[rejected element still enforced] creation raised: {type(raised).__name__ if raised else None}; "
      f"solvable without it: {base_ok}; solvable after the failed creation: {after_ok}")
if raised is not None and base_ok and not after_ok:
    violations.append("a creation that raised still constrains the schedule")

if violations:
    print("VIOLATION: a failed creation is not undone (name kept / element still in the model): "
          + "; ".join(violations))
    sys.exit(1)
print("ok")
sys.exit(0)
