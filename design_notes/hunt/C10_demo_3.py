"""C10 demo 3 - an APPLIED optional ScheduleNTasksInTimeIntervals(kind="max" or
"exact") does not hold, neither does it hold as an operand of And(...).

docs/task_constraints.md: "Given a list of m tasks, and a list of time intervals,
ScheduleNTasksInTimeIntervals schedule N tasks among m in this time interval."

t1=[0,2] and t2=[2,4] are pinned; both lie inside the interval (0,5).
The constraint "at most 1 / exactly 1 of {t1,t2} inside (0,5)" is declared
optional and ForceApplyNOptionalConstraints forces it to be applied, so the
property requires it to hold -> no schedule should exist.  The library returns
the pinned schedule.  The checker counts the tasks inside the interval on the
returned schedule.

exit 1 = property violated.
"""
import contextlib
import io
import os
import sys

sys.path.insert(0, "/repo")

import processscheduler as ps  # noqa: E402
import z3  # noqa: E402

INTERVALS = [(0, 5)]
N = 1


def solve(problem):
    with contextlib.redirect_stdout(io.StringIO()):
        solver = ps.SchedulingSolver(problem=problem)
        return solver.solve()


def count_inside(sched):
    return sum(
        1
        for (start, end) in sched.values()
        if any(start >= lo and end <= up for lo, up in INTERVALS)
    )


def holds(kind, count):
    return {"max": count <= N, "exact": count == N, "min": count >= N}[kind]


violations = []
for kind in ("max", "exact"):
    for mode in ("forced optional", "And operand"):
        pb = ps.SchedulingProblem(name=f"demo3_{kind}_{mode[0]}", horizon=10)
        t1 = ps.FixedDurationTask(name="t1", duration=2)
        t2 = ps.FixedDurationTask(name="t2", duration=2)
        ps.ConstraintFromExpression(expression=z3.And(t1._start == 0, t2._start == 2))
        if mode == "forced optional":
            c = ps.ScheduleNTasksInTimeIntervals(
                list_of_tasks=[t1, t2],
                nb_tasks_to_schedule=N,
                list_of_time_intervals=INTERVALS,
                kind=kind,
                optional=True,
            )
            ps.ForceApplyNOptionalConstraints(
                list_of_optional_constraints=[c], nb_constraints_to_apply=1, kind="exact"
            )
        else:
            c = ps.ScheduleNTasksInTimeIntervals(
                list_of_tasks=[t1, t2],
                nb_tasks_to_schedule=N,
                list_of_time_intervals=INTERVALS,
                kind=kind,
            )
            ps.And(list_of_constraints=[c, t1._start >= 0])
        sol = solve(pb)
        if sol:
            sched = {n: (t.start, t.end) for n, t in sol.tasks.items()}
            cnt = count_inside(sched)
            if not holds(kind, cnt):
                violations.append(
                    f"{mode}, kind={kind}, N={N}: library returned {sched} with {cnt} "
                    f"tasks inside {INTERVALS}"
                )

if violations:
    print("C10 VIOLATED - an applied constraint / And operand does not hold:")
    for v in violations:
        print("  -", v)
    sys.exit(1)
print("ok")
sys.exit(0)
