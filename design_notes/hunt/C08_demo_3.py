"""C08 / maximum lateness with an optional task that is not scheduled.

An unscheduled optional task is parked at start = end = -(task number); its
"lateness" -(n) - due_date still enters IndicatorMaximumLateness (the sibling
indicators tardiness / earliness ignore unscheduled tasks).
"""
import contextlib, io, os, sys
sys.path.insert(0, "/repo")
import processscheduler as ps

pb = ps.SchedulingProblem(name="maxlate", horizon=10)
a = ps.FixedDurationTask(name="a", duration=2, due_date=8, due_date_is_deadline=False)
# b cannot fit in the horizon: the solver has to leave it unscheduled
b = ps.FixedDurationTask(name="b", duration=20, due_date=1, due_date_is_deadline=False, optional=True)
ps.TaskStartAt(task=a, value=0)
ind = ps.IndicatorMaximumLateness(list_of_tasks=[a, b])

with contextlib.redirect_stdout(io.StringIO()):
    sol = ps.SchedulingSolver(problem=pb).solve()
if not sol:
    print("no solution"); sys.exit(1)

for n, t in sol.tasks.items():
    print(f"task {n}: scheduled={t.scheduled} start={t.start} end={t.end} due={t.due_date}")
scheduled = [t for t in sol.tasks.values() if t.scheduled]
expected = max(t.end - t.due_date for t in scheduled)  # L_max = max(C_j - d_j) over the jobs of the schedule
reported = sol.indicators[ind.name]
print(f"reported {ind.name} = {reported}; max lateness of the scheduled tasks = {expected}")
if reported != expected:
    print("VIOLATION: the unscheduled optional task contributes to the maximum lateness")
    sys.exit(1)
print("ok")
