"""C06 demo 7 - the parking instant of an unscheduled optional task (-task_number) collides with the
parking instant of a non-selected worker (SchedulingProblem.get_unique_negative_integer, -2, -3, ...).

Worker W1 is (a) a candidate of a SelectWorkers for the mandatory task A, (b) required by the
optional task B (2nd task created -> parked at -2) and (c) busy with the mandatory task C while A runs.  The first candidate of the first selection is also
parked at -2 when it is not selected.  Anything that sorts the busy intervals of W1 with
sort_no_duplicates (ResourceNonDelay, ResourceTasksDistance, IndicatorResourceIdle) then requires the
two parking instants to differ: B can only stay unscheduled if W1 is selected for A.

Property clause: an unscheduled task triggers no constraint; the schedules of the remaining tasks are
exactly those of the problem with the task deleted (there, A may use W2).

Exit status 1 when the property is violated, 0 otherwise.
"""
import contextlib
import io
import os
import sys

sys.path.insert(0, "/repo")
import processscheduler as ps  # noqa: E402


def solve(problem, **kw):
    with contextlib.redirect_stdout(io.StringIO()):
        return ps.SchedulingSolver(problem=problem, **kw).solve()


def build(extra, with_optional_task):
    pb = ps.SchedulingProblem(name="collision", horizon=10)
    a = ps.FixedDurationTask(name="A", duration=2)  # task number 1
    w1 = ps.Worker(name="W1")
    w2 = ps.Worker(name="W2")
    sel = ps.SelectWorkers(list_of_workers=[w1, w2], nb_workers_to_select=1, kind="exact")
    a.add_required_resource(sel)
    if with_optional_task:
        b = ps.FixedDurationTask(name="B", duration=2, optional=True)  # task number 2 -> parked at -2
        b.add_required_resource(w1)
        ps.OptionalTaskForceSchedule(task=b, to_be_scheduled=False)
    c = ps.FixedDurationTask(name="C", duration=2)
    c.add_required_resource(w1)
    # A and C both run on [0, 2]: W1 does C, hence A has to be done by W2
    ps.TaskStartAt(task=a, value=0)
    ps.TaskStartAt(task=c, value=0)
    if extra == "ResourceNonDelay":
        ps.ResourceNonDelay(resource=w1)
    elif extra == "IndicatorResourceIdle":
        ps.IndicatorResourceIdle(resource=w1)
    return pb


failures = []
for extra in ("ResourceNonDelay", "IndicatorResourceIdle"):
    reduced = solve(build(extra, False))
    if not reduced or reduced.tasks["A"].assigned_resources != ["W2"]:
        print("unexpected reduced result for", extra)
        continue
    full = solve(build(extra, True))
    if not full:
        failures.append(
            f"{extra}(W1): without B the problem is feasible (A done by W2); with the optional task B present and "
            "forbidden, the library reports NO solution"
        )
    elif full.tasks["B"].scheduled or full.tasks["A"].assigned_resources != ["W2"]:
        failures.append(f"{extra}: illegal schedule")

if failures:
    print("C06 VIOLATED (parking instants collide):")
    for f in failures:
        print(" -", f)
    sys.exit(1)
print("ok")
sys.exit(0)
