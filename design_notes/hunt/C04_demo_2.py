"""C04 / SameWorkers clause.

SameWorkers only equates the selection flags of the workers that appear in BOTH
selections; a worker that is offered by only one of the two selections is left
free.  With s1 = one of [w1, w2] and s2 = one of [w1, w3] the library returns
s1 -> w2 and s2 -> w3, i.e. two different workers, although SameWorkers is
mandatory.  (A and B run at the same time, so the only common worker w1 cannot
serve both: the correct answer is "no solution".)
"""
import contextlib, io, os, sys
sys.path.insert(0, "/repo")
import processscheduler as ps


def solve(problem, **kwargs):
    """solve quietly with the default solver settings"""
    with contextlib.redirect_stdout(io.StringIO()), contextlib.redirect_stderr(io.StringIO()):
        return ps.SchedulingSolver(problem=problem, **kwargs).solve()


def overlap(s, e, a, b):
    """length of the intersection of [s, e) and [a, b)"""
    return max(0, min(e, b) - max(s, a))

pb = ps.SchedulingProblem(name="demo2", horizon=10)
w1, w2, w3 = (ps.Worker(name=n) for n in ("w1", "w2", "w3"))
A = ps.FixedDurationTask(name="A", duration=2)
B = ps.FixedDurationTask(name="B", duration=2)
s1 = ps.SelectWorkers(list_of_workers=[w1, w2], nb_workers_to_select=1)
s2 = ps.SelectWorkers(list_of_workers=[w1, w3], nb_workers_to_select=1)
A.add_required_resource(s1)
B.add_required_resource(s2)
ps.SameWorkers(select_workers_1=s1, select_workers_2=s2)
ps.TasksStartSynced(task_1=A, task_2=B)

sol = solve(pb)
if not sol:
    print("OK: no schedule returned (the two selections cannot choose the same worker)")
    sys.exit(0)

# A only uses s1 and B only uses s2, so the workers assigned to A / B are
# exactly the workers chosen by s1 / s2.
chosen_1 = set(sol.tasks["A"].assigned_resources)
chosen_2 = set(sol.tasks["B"].assigned_resources)
print("s1 (task A) chose", sorted(chosen_1), "; s2 (task B) chose", sorted(chosen_2))
if chosen_1 != chosen_2:
    print("VIOLATION of C04 (SameWorkers: both selections must choose the same workers): "
          f"{sorted(chosen_1)} != {sorted(chosen_2)}")
    sys.exit(1)
print("OK: same workers")
sys.exit(0)
