"""C19 demo 3 - call sequence solve() then find_another_solution() in debug mode.

The problem has exactly one schedule.  solve() returns it; find_another_solution() then
(correctly) returns False, but the debug diagnosis prints
  "Unsatisfied constraints - conflict between 1 constraints: -> TaskStartAt(name='fix_start'..."
i.e. it names a user constraint as THE conflict, although that constraint together with the
basic task rules admits a schedule (the one returned one call earlier).  The assertion that
really takes part in the contradiction (the "differ from the previous solution" clause added
by find_another_solution) has no constraint name and is silently dropped from the report.

Exit status 1 = property violated, 0 = property holds.
"""
import contextlib
import io
import os
import re
import sys

sys.path.insert(0, "/repo")
import processscheduler as ps


@contextlib.contextmanager
def quiet():
    """capture python-level prints, drop z3's C-level verbose output (fd 2)"""
    buf = io.StringIO()
    saved = os.dup(2)
    devnull = os.open(os.devnull, os.O_WRONLY)
    os.dup2(devnull, 2)
    try:
        with contextlib.redirect_stdout(buf):
            yield buf
    finally:
        os.dup2(saved, 2)
        os.close(saved)
        os.close(devnull)


def build(keep=None):
    def k(name):
        return keep is None or name in keep

    pb = ps.SchedulingProblem(name="OnlyOneSchedule", horizon=10)
    task = ps.FixedDurationTask(name="task", duration=3)
    other = ps.FixedDurationTask(name="other", duration=2)
    if k("fix_start"):
        ps.TaskStartAt(name="fix_start", task=task, value=5)
    if k("fix_other"):
        ps.TaskEndAt(name="fix_other", task=other, value=2)
    return pb


def listed_constraints(output):
    if "Unsatisfied constraints" not in output:
        return None
    tail = output.split("Unsatisfied constraints", 1)[1]
    names = []
    for block in tail.split(" -> ")[1:]:
        m = re.search(r"name='([^']*)'", block)
        names.append(m.group(1) if m else block.strip()[:40])
    return names


def main():
    all_names = {"fix_start", "fix_other"}
    pb = build()
    solver = ps.SchedulingSolver(problem=pb, debug=True)
    with quiet():
        first = solver.solve()
    if not first:
        print("unexpected: the problem is feasible but solve() returned", first)
        return 2
    print("solve() ->", {n: (t.start, t.end) for n, t in first.tasks.items()})
    with quiet() as buf:
        second = solver.find_another_solution()
    out = buf.getvalue()
    print("find_another_solution() ->", second)
    if second:
        # every start/end is fixed by the two constraints: a second schedule cannot exist
        print("VIOLATION: a second, different schedule was returned for a one-schedule problem")
        return 1
    listed = listed_constraints(out)
    if listed is None:
        print("OK: no constraint is accused of conflicting")
        return 0
    print("debug diagnosis of the second call lists:", listed)
    bad = [n for n in listed if n not in all_names]
    if bad:
        print("VIOLATION: listed names that are not constraints of the problem:", bad)
        return 1
    # independent check: the listed constraints + basic task rules, solved from scratch
    with quiet():
        sol = ps.SchedulingSolver(problem=build(set(listed)), debug=False).solve()
    if sol:
        print(
            "VIOLATION: the diagnosis reports a conflict between the constraints",
            listed,
            "but these constraints together with the basic task rules admit the schedule",
            {n: (t.start, t.end) for n, t in sol.tasks.items()},
        )
        return 1
    print("OK: the listed constraints are really contradictory")
    return 0


if __name__ == "__main__":
    sys.exit(main())
