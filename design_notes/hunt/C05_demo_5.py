"""C05 demo 5 - two different 'parked in the past' conventions collide.
An unscheduled optional task is parked at -task_number (-1, -2, ...); a worker
that is NOT selected by a SelectWorkers is parked at a 'unique' negative integer
(-2, -3, ...).  IndicatorResourceIdle / ResourceNonDelay / ResourceTasksDistance
sort the busy intervals of a worker with sort_no_duplicates (strictly
increasing), so two parked intervals with the same negative value make the
problem unsatisfiable - although an indicator is a pure measurement.

W is unavailable on the whole horizon, so T1 (W or W2) must take W2 and the
optional T2 (needs W) must be left out.  That schedule is valid; with the idle
indicator on W the solver says 'no solution exists'.

Run:  cd /tmp/h1_C05 && /venv/bin/python _hunt/demo_5.py
exit 1 = property violated, exit 0 = library behaves as documented.
"""
import contextlib
import io
import os
import sys

sys.path.insert(0, "/repo")
import processscheduler as ps

HORIZON = 10
DUR = {"T1": 2, "T2": 2}
UNAVAILABLE = {"W": [(0, HORIZON)], "W2": []}
ALLOWED = {"T1": [{"W"}, {"W2"}], "T2": [{"W"}]}  # possible worker sets
OPTIONAL = {"T1": False, "T2": True}


def candidate_is_valid(schedule):
    """schedule: {task: None | (start, end, set_of_workers)}"""
    used = {}
    for name, item in schedule.items():
        if item is None:
            if not OPTIONAL[name]:
                return False
            continue
        s, e, workers = item
        if not (0 <= s and e - s == DUR[name] and e <= HORIZON):
            return False
        if workers not in ALLOWED[name]:
            return False
        for w in workers:
            for low, up in UNAVAILABLE[w]:
                if not (s >= up or e <= low):
                    return False
            for s2, e2 in used.get(w, []):
                if not (s >= e2 or s2 >= e):
                    return False
            used.setdefault(w, []).append((s, e))
    return True


def idle_of_W(schedule):
    """documented meaning of the idle indicator: gaps between consecutive
    tasks processed by the resource"""
    ivs = sorted((it[0], it[1]) for it in schedule.values() if it and "W" in it[2])
    return sum(ivs[i + 1][0] - ivs[i][1] for i in range(len(ivs) - 1))


def run(with_indicator):
    pb = ps.SchedulingProblem(name="demo5", horizon=HORIZON)
    w, w2 = ps.Worker(name="W"), ps.Worker(name="W2")
    t1 = ps.FixedDurationTask(name="T1", duration=DUR["T1"])
    t2 = ps.FixedDurationTask(name="T2", duration=DUR["T2"], optional=True)
    t1.add_required_resource(ps.SelectWorkers(list_of_workers=[w, w2]))
    t2.add_required_resource(w)
    ps.ResourceUnavailable(resource=w, list_of_time_intervals=UNAVAILABLE["W"])
    if with_indicator:
        ps.IndicatorResourceIdle(resource=w)
    out = io.StringIO()
    with contextlib.redirect_stdout(out):
        solution = ps.SchedulingSolver(problem=pb).solve()
    return solution, out.getvalue()


def main():
    candidate = {"T1": (0, 2, {"W2"}), "T2": None}
    assert candidate_is_valid(candidate) and idle_of_W(candidate) == 0
    assert not candidate_is_valid({"T1": (0, 2, {"W"}), "T2": None})
    assert not candidate_is_valid({"T1": (0, 2, {"W2"}), "T2": (3, 5, {"W"})})

    control, _ = run(with_indicator=False)
    print("control without the indicator:", "solution" if control else "no solution")

    solution, log = run(with_indicator=True)
    if not solution and "no solution exists" in log:
        print("VIOLATION: the valid schedule T1=[0,2] on W2, T2 left out "
              "(idle time of W = 0) is lost as soon as IndicatorResourceIdle(W) "
              "is declared: the solver reports 'no solution exists'.")
        sys.exit(1)
    print("with indicator:", "solution" if solution else log[-200:])
    sys.exit(0)


if __name__ == "__main__":
    main()
