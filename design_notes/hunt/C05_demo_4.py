"""C05 demo 4 - ResourcePeriodicallyInterrupted(start=...) with more than one
task on the worker.  The 'pattern is only active after `start`' exemption is
built once per worker from the loop variables of the LAST task only, so a task
that lies completely before `start` is still tested against the pattern
whenever the last task lies after `start`.

Worker W is interrupted during (2,4) of every period of 5, but only from
start=10 on.  A = [2,4] is entirely before 10 (pattern not active yet),
B = [15,17] sits between the active windows (12,14) and (17,19).
This schedule is valid, yet pinning it gives 'no solution exists'.

Run:  cd /tmp/h1_C05 && /venv/bin/python _hunt/demo_4.py
exit 1 = property violated, exit 0 = library behaves as documented.
"""
import contextlib
import io
import os
import sys

sys.path.insert(0, "/repo")
import processscheduler as ps

HORIZON = 30
PERIOD, WINDOWS, START = 5, [(2, 4)], 10
DUR = {"A": 2, "B": 2}


def candidate_is_valid(schedule):
    """Documented meaning (class docstring): the windows are repeated every
    `period`; `start` is 'the start after which repeating the list of time
    intervals is active'.  A fixed duration task cannot be interrupted, hence
    must not overlap the active part of any window.  W does one task at a time."""
    for name, (s, e) in schedule.items():
        if not (0 <= s and e - s == DUR[name] and e <= HORIZON):
            return False
    items = list(schedule.values())
    for i in range(len(items)):
        for k in range(i + 1, len(items)):
            (s1, e1), (s2, e2) = items[i], items[k]
            if not (s2 >= e1 or s1 >= e2):
                return False
    for s, e in schedule.values():
        k = 0
        while k * PERIOD <= HORIZON:
            for low, up in WINDOWS:
                lo, hi = max(low + k * PERIOD, START), up + k * PERIOD
                if lo < hi and not (s >= hi or e <= lo):
                    return False
            k += 1
    return True


def solve_pinned(schedule):
    pb = ps.SchedulingProblem(name="demo4", horizon=HORIZON)
    worker = ps.Worker(name="W")
    tasks = {}
    for name in schedule:
        tasks[name] = ps.FixedDurationTask(name=name, duration=DUR[name])
        tasks[name].add_required_resource(worker)
    ps.ResourcePeriodicallyInterrupted(
        resource=worker, list_of_time_intervals=WINDOWS, period=PERIOD, start=START
    )
    for name, (s, _) in schedule.items():
        ps.TaskStartAt(task=tasks[name], value=s)
    out = io.StringIO()
    with contextlib.redirect_stdout(out):
        solution = ps.SchedulingSolver(problem=pb).solve()
    return solution, out.getvalue()


def main():
    candidate = {"A": (2, 4), "B": (15, 17)}
    assert candidate_is_valid(candidate)
    assert not candidate_is_valid({"A": (2, 4), "B": (16, 18)})  # hits (17,19)
    assert not candidate_is_valid({"A": (11, 13), "B": (15, 17)})  # hits (12,14)

    # control: A alone at [2,4] is accepted by the library (exemption works
    # when A is the only/last task), which shows what the library itself means
    alone, _ = solve_pinned({"A": (2, 4)})
    print("control, A alone pinned at [2,4]:", "accepted" if alone else "rejected")

    solution, log = solve_pinned(candidate)
    if not solution and "no solution exists" in log:
        print(f"VIOLATION: {candidate} satisfies the documented meaning of "
              f"ResourcePeriodicallyInterrupted(period={PERIOD}, windows={WINDOWS}, "
              f"start={START}) but pinning it yields 'no solution exists'.")
        sys.exit(1)
    print("pinned candidate accepted:", bool(solution))
    sys.exit(0)


if __name__ == "__main__":
    main()
