"""C01 / "for ALL schedules the generated constraint system admits, under every
solver configuration": SchedulingSolver(debug=True).export_to_smt2() writes a
constraint system in which every task-timing assertion is guarded by a *free*
tracking literal (asst_xxxxxxxx => ...), followed by a bare (check-sat).
Any other SMT solver that processes the file (that is what the export is for)
may therefore return schedules that break every clause of C01.

Exit status: 1 if the exported system admits a schedule violating C01, 0 otherwise.
"""
import contextlib
import io
import os
import re
import sys
import tempfile

sys.path.insert(0, "/repo")

import z3
import processscheduler as ps

HORIZON = 20
# documented task parameters, kept here so that the checker is independent of the library
SPEC = {
    "fixed": dict(kind="fixed", duration=3, release=2, deadline=15),
    "var": dict(kind="var", dmin=2, dmax=5, allowed=[3, 4, 7], release=4, deadline=12),
    "zero": dict(kind="zero", release=5, deadline=9),
}


def build_and_export(debug, optimizer):
    pb = ps.SchedulingProblem(name=f"demo1_{debug}_{optimizer}", horizon=HORIZON)
    ps.FixedDurationTask(name="fixed", duration=3, release_date=2, due_date=15)
    ps.VariableDurationTask(
        name="var", min_duration=2, max_duration=5, allowed_durations=[3, 4, 7],
        release_date=4, due_date=12,
    )
    ps.ZeroDurationTask(name="zero", release_date=5, due_date=9)
    if optimizer == "optimize":
        ps.ObjectiveMinimizeMakespan()
    solver = ps.SchedulingSolver(problem=pb, debug=debug, optimizer=optimizer)
    fd, path = tempfile.mkstemp(suffix=".smt2")
    os.close(fd)
    with contextlib.redirect_stdout(io.StringIO()):
        solver.export_to_smt2(path)
    with open(path, encoding="utf-8") as f:
        text = f.read()
    os.remove(path)
    return text


def c01_violation_smt():
    """SMT-LIB text of 'some task breaks C01', written from the documented meaning"""
    bad = []
    for name, sp in SPEC.items():
        s, e = f"{name}_start", f"{name}_end"
        b = [f"(< {s} 0)", f"(> {e} {HORIZON})", f"(< {s} {sp['release']})", f"(> {e} {sp['deadline']})"]
        d = f"(- {e} {s})"
        if sp["kind"] == "fixed":
            b.append(f"(not (= {d} {sp['duration']}))")
        elif sp["kind"] == "zero":
            b.append(f"(not (= {d} 0))")
        else:
            b.append(f"(< {d} {sp['dmin']})")
            b.append(f"(> {d} {sp['dmax']})")
            b.append("(and " + " ".join(f"(not (= {d} {a}))" for a in sp["allowed"]) + ")")
        bad.extend(b)
    return "(assert (or " + " ".join(bad) + "))"


def run_like_an_external_solver(script):
    """feed the script to a fresh SMT-LIB interpreter, return (status, {var: value})"""
    names = [f"{n}_{k}" for n in SPEC for k in ("start", "end")]
    ctx1 = z3.Context()
    out = z3.Z3_eval_smtlib2_string(ctx1.ref(), script)
    status = "sat" if re.search(r"^sat$", out, re.M) else ("unsat" if re.search(r"^unsat$", out, re.M) else "unknown")
    if status == "sat":  # ask for the schedule only when there is one
        script = script + "\n(get-value (" + " ".join(names) + "))\n"
        ctx2 = z3.Context()
        out = z3.Z3_eval_smtlib2_string(ctx2.ref(), script)
    values = {}
    if status == "sat":
        for n in names:
            m = re.search(r"\(" + re.escape(n) + r"\s+(\(-\s*\d+\)|-?\d+)\)", out)
            if m:
                v = m.group(1)
                values[n] = -int(re.sub(r"[^\d]", "", v)) if v.startswith("(") else int(v)
    return status, values


def check_schedule(values):
    """C01 on a concrete schedule (all three tasks are mandatory, hence scheduled)"""
    problems = []
    for name, sp in SPEC.items():
        s, e = values.get(f"{name}_start"), values.get(f"{name}_end")
        if s is None or e is None:
            continue
        d = e - s
        if s < 0: problems.append(f"{name}: start {s} < 0")
        if e > HORIZON: problems.append(f"{name}: end {e} > horizon {HORIZON}")
        if s < sp["release"]: problems.append(f"{name}: start {s} < release date {sp['release']}")
        if e > sp["deadline"]: problems.append(f"{name}: end {e} > deadline {sp['deadline']}")
        if sp["kind"] == "fixed" and d != sp["duration"]: problems.append(f"{name}: end-start {d} != duration {sp['duration']}")
        if sp["kind"] == "zero" and d != 0: problems.append(f"{name}: end-start {d} != 0")
        if sp["kind"] == "var" and not (sp["dmin"] <= d <= sp["dmax"] and d in sp["allowed"]):
            problems.append(f"{name}: end-start {d} outside [{sp['dmin']},{sp['dmax']}] / {sp['allowed']}")
    return problems


def main():
    failed = False
    for debug in (False, True):
        for optimizer in ("incremental", "optimize"):
            text = build_and_export(debug, optimizer)
            label = f"debug={debug}, optimizer={optimizer}"
            # 1. the file exactly as written
            status, values = run_like_an_external_solver(text)
            verbatim = check_schedule(values) if status == "sat" else []
            # 2. does the exported system admit a C01-violating schedule at all?
            idx = text.rfind("(check-sat")
            probe = text[:idx] + c01_violation_smt() + "\n" + text[idx:]
            status2, values2 = run_like_an_external_solver(probe)
            if status2 == "sat" or verbatim:
                failed = True
                print(f"[{label}] VIOLATION: the exported constraint system admits a schedule that breaks C01")
                if verbatim:
                    print(f"    schedule returned for the file as written: {values}")
                    for p in verbatim: print("      -", p)
                elif status2 == "sat":
                    print(f"    witness schedule: {values2}")
                    for p in check_schedule(values2): print("      -", p)
            else:
                print(f"[{label}] ok: exported system is {status}, and unsat together with 'C01 is violated'")
    if failed:
        print("FAIL: export_to_smt2 in debug mode leaves the tracking literals free, task timing is not enforced")
        sys.exit(1)
    print("PASS")
    sys.exit(0)


if __name__ == "__main__":
    main()
