"""C12 demo 3 - find_another_solution() can return a schedule whose timing is identical
to one this solver already returned.  It only excludes the timing of the *current*
solution; when the current solution has been replaced by another call
(find_another_solution_for_variable, or solve again) the replaced timing was never
excluded and comes back.

Exit status 1 = property violated (unchanged library), 0 = property holds.
"""
import contextlib
import os
import sys

sys.path.insert(0, "/repo")
import processscheduler as ps


@contextlib.contextmanager
def quiet():
    with open(os.devnull, "w") as devnull, contextlib.redirect_stdout(devnull):
        yield


def timing(solution):
    return tuple(
        (n, t.start, t.end, t.scheduled) for n, t in sorted(solution.tasks.items())
    )


def build(horizon, duration, optional_b):
    """a mandatory task A (if duration is not None) and/or an optional task B"""
    pb = ps.SchedulingProblem(name="demo3", horizon=horizon)
    if duration is not None:
        ps.FixedDurationTask(name="A", duration=duration)
    if optional_b:
        ps.FixedDurationTask(name="B", duration=1, optional=True)
    return pb


def is_valid(horizon, duration, optional_b, t):
    """documented meaning, recomputed by hand: a scheduled task has
    0 <= start, end = start + duration, end <= horizon; nothing else constrains it"""
    durations = {"A": duration, "B": 1}
    for name, start, end, scheduled in t:
        if scheduled and not (0 <= start and end == start + durations[name] and end <= horizon):
            return False
    return True


def play(horizon, duration, optional_b, sequence):
    """run solve() then the calls of `sequence`:
         a = find_another_solution()
         v = find_another_solution_for_variable(<the problem's horizon variable>)
         s = solve()
    Return a description of the first repetition produced by an 'a' call, or None."""
    with quiet():
        pb = build(horizon, duration, optional_b)
        solver = ps.SchedulingSolver(problem=pb)
        sol = solver.solve()
    history = [("solve", timing(sol))]
    for c in sequence:
        with quiet():
            if c == "a":
                sol = solver.find_another_solution()
            elif c == "v":
                # the makespan/horizon variable, the one ObjectiveMinimizeMakespan targets;
                # it is not determined by the task timing (any value between the last
                # end and the horizon is allowed)
                sol = solver.find_another_solution_for_variable(pb._horizon)
            else:
                sol = solver.solve()
        if not sol:
            history.append((c, None))
            break
        t = timing(sol)
        if not is_valid(horizon, duration, optional_b, t):
            return history + [(c, t)], "an invalid schedule was returned"
        if c == "a" and t in [h[1] for h in history]:
            return history + [(c, t)], (
                "find_another_solution() returned a timing this solver had already returned"
            )
        history.append((c, t))
    return None


def main():
    names = {"a": "find_another_solution", "v": "find_another_solution_for_variable(horizon)", "s": "solve"}
    scenarios = [
        # (horizon, duration of A, optional task B?, call sequence after the first solve)
        (3, 1, False, "ava"),
        (4, 2, False, "ava"),
        (4, 1, False, "avaa"),
        (5, 1, False, "aava"),
        # solve again, then enumerate to exhaustion (3, 6, resp. 12 valid timings exist)
        (2, None, True, "s" + "a" * 4),
        (2, 1, True, "s" + "a" * 7),
        (3, 1, True, "s" + "a" * 13),
    ]
    status = 0
    for horizon, duration, optional_b, sequence in scenarios:
        res = play(horizon, duration, optional_b, sequence)
        label = f"horizon={horizon}, A.duration={duration}, optional B={optional_b}, calls=solve,{sequence}"
        if res is None:
            print("ok       ", label)
            continue
        history, why = res
        status = 1
        print("VIOLATION", label)
        print("   ", why)
        for c, t in history:
            print("      ", names.get(c, c).ljust(45), t)
    if status == 0:
        print("OK: no timing was ever returned twice")
    return status


if __name__ == "__main__":
    sys.exit(main())
