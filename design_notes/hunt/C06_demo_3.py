"""C06 demo 3 - task groups are applied to optional members that are not scheduled.

Property clause: a task reported as not scheduled "triggers no constraint"; the schedules
of the remaining tasks are exactly those of the problem with the unscheduled task deleted.
docs/task_constraints.md: "If the task(s) is (are) optional(s), all these constraints apply
only if the task is scheduled."

Exit status 1 when the property is violated, 0 otherwise.
"""
import contextlib
import io
import os
import sys

sys.path.insert(0, "/repo")
import processscheduler as ps  # noqa: E402


def solve(problem):
    with contextlib.redirect_stdout(io.StringIO()):
        return ps.SchedulingSolver(problem=problem).solve()


def unordered(with_optional_task):
    """A and (optionally) T must lie in the window [3, 10]"""
    pb = ps.SchedulingProblem(name="unordered", horizon=20)
    a = ps.FixedDurationTask(name="A", duration=2)
    members = [a]
    if with_optional_task:
        t = ps.FixedDurationTask(name="T", duration=2, optional=True)
        members.append(t)
        ps.OptionalTaskForceSchedule(task=t, to_be_scheduled=False)
    ps.UnorderedTaskGroup(list_of_tasks=members, time_interval=(3, 10))
    return pb


def ordered(kind):
    def build(with_optional_task):
        """A, then (optionally) T, then B"""
        pb = ps.SchedulingProblem(name="ordered", horizon=20)
        a = ps.FixedDurationTask(name="A", duration=2)
        members = [a]
        if with_optional_task:
            t = ps.FixedDurationTask(name="T", duration=2, optional=True)
            members.append(t)
            ps.OptionalTaskForceSchedule(task=t, to_be_scheduled=False)
        b = ps.FixedDurationTask(name="B", duration=2)
        members.append(b)
        ps.OrderedTaskGroup(list_of_tasks=members, kind=kind)
        return pb

    return build


def legal(label, sol):
    """independent check of the schedule of the mandatory tasks"""
    a = sol.tasks["A"]
    if label == "UnorderedTaskGroup":
        return a.end - a.start == 2 and a.start >= 3 and a.end <= 10
    b = sol.tasks["B"]
    if a.end - a.start != 2 or b.end - b.start != 2 or a.start < 0 or b.end > 20:
        return False
    if "lax" in label:
        return a.end <= b.start
    if "strict" in label:
        return a.end < b.start
    return a.end == b.start


cases = [("UnorderedTaskGroup", unordered)] + [
    (f"OrderedTaskGroup {k}", ordered(k)) for k in ("lax", "strict", "tight")
]
failures = []
for label, build in cases:
    reduced = solve(build(False))
    if not reduced or not legal(label, reduced):
        print("unexpected: reduced problem not solved for", label)
        continue
    full = solve(build(True))
    if not full:
        failures.append(
            f"{label}: with the unscheduled task deleted there is a schedule, with the optional member T present "
            "and forbidden the library reports NO solution (the group bounds T's parking instant)"
        )
        continue
    if full.tasks["T"].scheduled:
        failures.append(f"{label}: T scheduled although forbidden")
    elif not legal(label, full):
        failures.append(f"{label}: mandatory members illegally scheduled")

if failures:
    print("C06 VIOLATED (task groups):")
    for f in failures:
        print(" -", f)
    sys.exit(1)
print("ok: unscheduled optional members are ignored by task groups")
sys.exit(0)
