"""C16 / Excel export must succeed for every valid solution.

Two tasks run in parallel on a CumulativeWorker of size 2 (exactly what a
cumulative worker is documented for).  The solution is valid, JSON and
DataFrame exports work, but SchedulingSolution.to_excel_file() raises.
"""
import contextlib
import io
import os
import re
import sys
import tempfile
import zipfile
import xml.etree.ElementTree as ET

sys.path.insert(0, "/repo")
import processscheduler as ps


NS = "{http://schemas.openxmlformats.org/spreadsheetml/2006/main}"


def read_sheet(filename, sheet_name):
    """minimal xlsx reader: {(row, col): text} for one sheet"""
    with zipfile.ZipFile(filename) as archive:
        strings = []
        if "xl/sharedStrings.xml" in archive.namelist():
            root = ET.fromstring(archive.read("xl/sharedStrings.xml"))
            for item in root.findall(f"{NS}si"):
                strings.append("".join(t.text or "" for t in item.iter(f"{NS}t")))
        workbook = ET.fromstring(archive.read("xl/workbook.xml"))
        names = [s.get("name") for s in workbook.find(f"{NS}sheets")]
        index = names.index(sheet_name) + 1
        sheet = ET.fromstring(archive.read(f"xl/worksheets/sheet{index}.xml"))
    cells = {}
    for cell in sheet.iter(f"{NS}c"):
        value = cell.find(f"{NS}v")
        if value is None:
            continue
        letters = re.match(r"[A-Z]+", cell.get("r")).group(0)
        col = 0
        for char in letters:
            col = col * 26 + ord(char) - 64
        row = int(cell.get("r")[len(letters):])
        text = strings[int(value.text)] if cell.get("t") == "s" else value.text
        cells[(row - 1, col - 1)] = text
    return cells


def quiet(func, *args, **kwargs):
    with contextlib.redirect_stdout(io.StringIO()):
        return func(*args, **kwargs)


problem = ps.SchedulingProblem(name="CumulativeExcel", horizon=3)
t1 = ps.FixedDurationTask(name="T1", duration=3)
t2 = ps.FixedDurationTask(name="T2", duration=3)
machine = ps.CumulativeWorker(name="Machine", size=2)
t1.add_required_resource(machine)
t2.add_required_resource(machine)

solution = quiet(ps.SchedulingSolver(problem=problem).solve)
if not solution:
    print("unexpected: problem has no solution")
    sys.exit(2)

# independent validity check of the reported schedule: with horizon 3 and two
# tasks of duration 3 both tasks must occupy [0, 3], i.e. overlap on the
# cumulative worker (capacity 2, so this is legal).
for t in solution.tasks.values():
    assert (t.start, t.end, t.scheduled) == (0, 3, True), t
assert sorted(solution.resources["Machine"].assignments) == [
    ("T1", 0, 3),
    ("T2", 0, 3),
]

# the other exporters are fine with this solution
solution.to_json()
solution.to_csv()

filename = os.path.join(tempfile.mkdtemp(), "cumulative.xlsx")
try:
    solution.to_excel_file(filename)
except Exception as exc:  # pylint: disable=broad-except
    print(
        "VIOLATION: to_excel_file() failed on a valid solution "
        f"(two tasks overlapping on a CumulativeWorker): {type(exc).__name__}: {exc}"
    )
    sys.exit(1)

if not os.path.isfile(filename):
    print("VIOLATION: no workbook written")
    sys.exit(1)

# the workbook must show both assignments of the cumulative worker
cells = read_sheet(filename, "GANTT Resource view")
texts = [v for (r, c), v in cells.items() if r > 0 and c > 0]
missing = [
    name
    for name, _, _ in solution.resources["Machine"].assignments
    if name not in texts
]
if missing:
    print(f"VIOLATION: resource view shows {texts}, assignments lost: {missing}")
    sys.exit(1)
print("ok: workbook written", texts)
sys.exit(0)
