"""C02 / 'occupies each required worker for its whole span shifted inwards by
the declared delay-in/early-out': the shift is dropped when the resource is a
SelectWorkers (or a CumulativeWorker).

T lasts 4 periods and needs one worker out of [A, B], declared with delay_in=1
and early_out=1: the selected worker has to be busy on [start+1, end-1] only.
The same declaration with a plain Worker is honoured (shown for comparison).
"""
import contextlib
import io
import os
import sys

sys.path.insert(0, "/repo")
import processscheduler as ps

DELAY_IN, EARLY_OUT = 1, 1

pb = ps.SchedulingProblem(name="DelayedSelection", horizon=4)
a = ps.Worker(name="A")
b = ps.Worker(name="B")
c = ps.Worker(name="C")
cw = ps.CumulativeWorker(name="CW", size=2)
t = ps.FixedDurationTask(name="T", duration=4)
t.add_required_resource(c, delay_in=DELAY_IN, early_out=EARLY_OUT)
t.add_required_resource(
    ps.SelectWorkers(list_of_workers=[a, b], nb_workers_to_select=1),
    delay_in=DELAY_IN,
    early_out=EARLY_OUT,
)
t.add_required_resource(cw, delay_in=DELAY_IN, early_out=EARLY_OUT)

solver = ps.SchedulingSolver(problem=pb)
with contextlib.redirect_stdout(io.StringIO()):
    solution = solver.solve()

if not solution:
    print("no schedule returned (nothing to check)")
    sys.exit(0)

ts = solution.tasks["T"]
expected = (ts.start + DELAY_IN, ts.end - EARLY_OUT)
print(f"  T: [{ts.start},{ts.end}], declared delay_in={DELAY_IN} early_out={EARLY_OUT}"
      f" -> every assigned resource must be busy on [{expected[0]},{expected[1]}]")
violations = []
for rs in solution.resources.values():
    for task_name, start, end in rs.assignments:
        if task_name != "T":
            continue
        print(f"  {rs.name}: busy [{start},{end}]")
        if (start, end) != expected:
            violations.append(
                f"{rs.name} is busy on [{start},{end}] instead of [{expected[0]},{expected[1]}]"
            )
if violations:
    print("PROPERTY VIOLATED (delay-in/early-out):")
    for v in violations:
        print("  " + v)
    sys.exit(1)
print("delays honoured")
sys.exit(0)
