"""C07 demo 1 - Indicator.bounds silently truncates the incremental optimiser.

docs/indicator.md: "Customized indicators can also be bounded ... Bounds are
constraints over an indicator value."  The library never asserts the bounds; the
only place they are used is _solve_optimize_incremental, which stops as soon as
the current value *equals* the bound and announces "Found optimum".  The z3
Optimize back-end ignores the bounds completely.  So the two optimisers return
different "optimal" values for the same problem, and whichever reading of
"bounds" one takes, one of them is wrong.
"""
import contextlib, io, os, sys, warnings

sys.path.insert(0, "/repo")
import processscheduler as ps

warnings.simplefilter("ignore")
HORIZON, DURATION, BOUNDS = 20, 3, (0, 10)


def build():
    ps.SchedulingProblem(name="Bounded", horizon=HORIZON)
    task = ps.FixedDurationTask(name="t", duration=DURATION)
    ind = ps.IndicatorFromMathExpression(
        name="TStart", expression=task._start, bounds=BOUNDS
    )
    ps.ObjectiveMaximizeIndicator(target=ind)
    return ps.base.active_problem


def solve(optimizer):
    pb = build()
    solver = ps.SchedulingSolver(problem=pb, optimizer=optimizer)
    with contextlib.redirect_stdout(io.StringIO()):
        sol = solver.solve()
    assert sol, f"{optimizer}: no solution"
    start = sol.tasks["t"].start
    # the indicator is documented as the value of its expression
    assert sol.indicators["TStart"] == start
    return start


v_inc = solve("incremental")
v_opt = solve("optimize")

# independent computation: every start in 0..HORIZON-DURATION is a valid schedule
valid_starts = range(0, HORIZON - DURATION + 1)
best_if_bounds_are_hints = max(valid_starts)  # 17
best_if_bounds_are_constraints = max(s for s in valid_starts if BOUNDS[0] <= s <= BOUNDS[1])  # 10

print(f"incremental optimiser : TStart = {v_inc}")
print(f"z3 Optimize           : TStart = {v_opt}")
print(f"best over all valid schedules (bounds not enforced) : {best_if_bounds_are_hints}")
print(f"best if bounds were enforced as constraints         : {best_if_bounds_are_constraints}")

# Accepted behaviours: both optimisers return the same value, and that value is
# the true best under one of the two possible readings of "bounds".
problems = []
if v_inc != v_opt:
    problems.append(f"the two optimisers disagree ({v_inc} vs {v_opt})")
for label, v in (("incremental", v_inc), ("optimize", v_opt)):
    if v not in (best_if_bounds_are_hints, best_if_bounds_are_constraints):
        problems.append(f"{label} returned {v}, which is the best value under no reading")
if v_inc < v_opt:
    problems.append(
        f"incremental stopped at {v_inc} ('Found optimum') although the library itself "
        f"accepts the schedule start={v_opt} as valid (Optimize returns it)"
    )
if problems:
    print("VIOLATION of C07: " + "; ".join(problems))
    sys.exit(1)
print("OK")
sys.exit(0)
