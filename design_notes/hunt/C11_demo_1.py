"""C11 demo 1 - a task reported as NOT scheduled still carries a resource assignment.

One optional task of duration 3 in a horizon of 2: it cannot be scheduled, so the
solver has to leave it out.  It requires worker W with delay_in=2 (the worker joins
two periods after the task start).

Property: a task reported as not scheduled carries no assignment, and a task lists
a resource exactly when that resource lists an assignment for the task.
"""
import contextlib
import io
import os
import sys

sys.path.insert(0, "/repo")
import processscheduler as ps

with contextlib.redirect_stdout(io.StringIO()):
    pb = ps.SchedulingProblem(name="demo1", horizon=2)
    task = ps.FixedDurationTask(name="T", duration=3, optional=True)
    worker = ps.Worker(name="W")
    task.add_required_resource(worker, delay_in=2)
    solution = ps.SchedulingSolver(problem=pb).solve()

if not solution:
    print("no solution returned, nothing to check")
    sys.exit(0)

errors = []
for t_name, t_sol in solution.tasks.items():
    listed_by_task = set(t_sol.assigned_resources)
    listing_the_task = {
        r_name
        for r_name, r_sol in solution.resources.items()
        if any(a[0] == t_name for a in r_sol.assignments)
    }
    if not t_sol.scheduled and listed_by_task:
        errors.append(
            f"task {t_name} is reported scheduled=False (start={t_sol.start}, end={t_sol.end}) "
            f"but carries assigned_resources={sorted(listed_by_task)}"
        )
    if not t_sol.scheduled and listing_the_task:
        errors.append(
            f"task {t_name} is reported scheduled=False but resources {sorted(listing_the_task)} list it"
        )
    if listed_by_task != listing_the_task:
        errors.append(
            f"task {t_name} lists {sorted(listed_by_task)} whereas the resources that list "
            f"an assignment for it are {sorted(listing_the_task)}"
        )

if errors:
    print("C11 VIOLATED:")
    for e in errors:
        print("  -", e)
    sys.exit(1)
print("ok")
sys.exit(0)
