"""C02 / work amount clause: a worker that belongs to the lists of two
SelectWorkers of the same task is counted twice in the work amount.

T needs 4 units of work, one worker out of [A, B] and one worker out of [B, C];
every worker produces 1 unit per period.  Whatever the selection, the workers
really assigned to T must together deliver productivity * busy time >= 4.
"""
import contextlib
import io
import os
import sys

sys.path.insert(0, "/repo")
import processscheduler as ps

pb = ps.SchedulingProblem(name="OverlappingPools")
workers = {n: ps.Worker(name=n, productivity=1) for n in "ABC"}
task = ps.VariableDurationTask(name="T", work_amount=4)
task.add_required_resource(
    ps.SelectWorkers(list_of_workers=[workers["A"], workers["B"]], nb_workers_to_select=1)
)
task.add_required_resource(
    ps.SelectWorkers(list_of_workers=[workers["B"], workers["C"]], nb_workers_to_select=1)
)
ps.ObjectiveMinimizeMakespan()

solver = ps.SchedulingSolver(problem=pb)
with contextlib.redirect_stdout(io.StringIO()):
    solution = solver.solve()

if not solution:
    print("no schedule returned (nothing to check)")
    sys.exit(0)

ts = solution.tasks["T"]
# independent recomputation: sum over the DISTINCT workers busy with T of
# productivity * busy time, read from the returned resource assignments
done = 0
detail = []
for name, wk in workers.items():
    for task_name, start, end in solution.resources[name].assignments:
        if task_name == "T":
            done += wk.productivity * (end - start)
            detail.append(f"{name}: {wk.productivity} x ({end}-{start})")

print(f"  T: [{ts.start},{ts.end}] assigned {ts.assigned_resources}; work = {' + '.join(detail)} = {done}")
if ts.scheduled and done < task.work_amount:
    print(
        f"PROPERTY VIOLATED (work amount): workers deliver {done} < work_amount {task.work_amount}"
    )
    sys.exit(1)
print("work amount reached")
sys.exit(0)
