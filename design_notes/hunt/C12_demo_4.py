"""C12 demo 4 - with a legal task name that happens to spell the internal name of a
worker's busy variable, the enumeration solve() + find_another_solution()* does not
visit every valid timing: two unrelated tasks are silently tied together.

Exit status 1 = property violated (unchanged library), 0 = property holds.
"""
import contextlib
import itertools
import os
import sys

sys.path.insert(0, "/repo")
import processscheduler as ps

HORIZON = 2


@contextlib.contextmanager
def quiet():
    with open(os.devnull, "w") as devnull, contextlib.redirect_stdout(devnull):
        yield


def timing(solution):
    return tuple(
        (n, t.start, t.end, t.scheduled) for n, t in sorted(solution.tasks.items())
    )


def enumerate_all(second_task_name):
    """task 'A' (duration 1) needs worker 'w'; a second task (duration 1) needs nothing
    and is not linked to A by any constraint. Horizon 2."""
    with quiet():
        pb = ps.SchedulingProblem(name="demo4", horizon=HORIZON)
        a = ps.FixedDurationTask(name="A", duration=1)
        a.add_required_resource(ps.Worker(name="w"))
        ps.FixedDurationTask(name=second_task_name, duration=1)
        solver = ps.SchedulingSolver(problem=pb)
        sol = solver.solve()
    seen = []
    while sol and len(seen) < 50:
        seen.append(timing(sol))
        with quiet():
            sol = solver.find_another_solution()
    return seen


def expected(second_task_name):
    """documented meaning, recomputed by hand: each task independently starts at any
    integer s >= 0 with s + 1 <= horizon; worker w serves A only, so it never conflicts"""
    names = sorted(["A", second_task_name])
    out = set()
    for starts in itertools.product(range(HORIZON), repeat=2):
        out.add(tuple((n, s, s + 1, True) for n, s in zip(names, starts)))
    return out


def main():
    status = 0
    for name in ["B", "w_busy_A"]:
        seen = enumerate_all(name)
        exp = expected(name)
        missing = exp - set(seen)
        extra = set(seen) - exp
        dup = len(seen) != len(set(seen))
        print(f"second task named {name!r}: {len(exp)} valid timings, {len(seen)} visited")
        if missing or extra or dup:
            status = 1
            print("  VIOLATION: the enumeration stopped although valid timings were never visited:")
            for m in sorted(missing):
                print("     ", m)
    if status == 0:
        print("OK: every valid timing visited exactly once, whatever the task name")
    return status


if __name__ == "__main__":
    sys.exit(main())
