"""C17 / calendar times: the time axis of the Gantt chart formats every instant
with "%H:%M" only.  As soon as the schedule spans more than a day (or the period is
shorter than a minute) different instants get the SAME label, so the bars cannot be
read "at the right place" in calendar time (e.g. delta_time = 1 day: every tick
reads "00:00").

docs/scheduling_problem.md: time intervals are represented "in real dates and times
rather than integers"; "any point in time can be mapped to a Python datetime".
Each abscissa 0..horizon is a distinct datetime (start_time + i*delta_time), hence
the labels drawn for two different abscissae must differ, and the label under a
bar's start must not also designate another instant than the reported start_time.
"""
import os, sys, io, contextlib, warnings
sys.path.insert(0, "/repo")
import matplotlib
matplotlib.use("Agg")
import matplotlib.pyplot as plt
from datetime import datetime, timedelta
import processscheduler as ps

warnings.simplefilter("ignore")

failures = []
for delta in (timedelta(days=1), timedelta(hours=12), timedelta(seconds=20)):
    pb = ps.SchedulingProblem(
        name="multi", horizon=4, delta_time=delta, start_time=datetime(2024, 1, 1, 0, 0)
    )
    a = ps.FixedDurationTask(name="A", duration=2)
    b = ps.FixedDurationTask(name="B", duration=2)
    w = ps.Worker(name="W")
    a.add_required_resource(w)
    b.add_required_resource(w)
    with contextlib.redirect_stdout(io.StringIO()):
        sol = ps.SchedulingSolver(problem=pb).solve()
    assert sol, "no solution"

    for mode in ("Resource", "Task"):
        plt.close("all")
        ps.render_gantt_matplotlib(sol, show_plot=False, render_mode=mode)
        fig = plt.gcf()
        fig.canvas.draw()
        ax = fig.axes[0]
        label_at = {
            int(round(p)): l.get_text() for p, l in zip(ax.get_xticks(), ax.get_xticklabels())
        }
        # independent recomputation of the instant of every abscissa
        instant_at = {i: pb.start_time + i * delta for i in range(sol.horizon + 1)}
        for name, t in sol.tasks.items():
            assert instant_at[t.start] == t.start_time
            lab = label_at.get(t.start)
            clash = [
                str(instant_at[i])
                for i in instant_at
                if i != t.start and label_at.get(i) == lab
            ]
            if clash:
                failures.append(
                    f"delta_time={delta}, {mode}: bar {name} starts at {t.start_time}, "
                    f"its tick reads {lab!r}, the same label is drawn for {clash}"
                )

if failures:
    print("VIOLATION: calendar tick labels do not identify the instants")
    print("\n".join(failures))
    sys.exit(1)
print("ok")
sys.exit(0)
