"""C08 / total resource cost of a CumulativeWorker is not a function of the schedule.

The cost per period of a CumulativeWorker is split unevenly over hidden
sub-workers (5 over 2 -> 3 and 2; 2 over 3 -> 2, 0, 0) and a task may silently
take one or several of them (SelectWorkers kind="min").  Two solutions that
report exactly the same schedule therefore report different costs.
"""
import contextlib, io, os, sys
sys.path.insert(0, "/repo")
import processscheduler as ps

SIZE, COST, DUR = 2, 5, 6

def build_and_solve(kind):
    pb = ps.SchedulingProblem(name=f"cumulcost_{kind}", horizon=DUR)
    a = ps.FixedDurationTask(name="a", duration=DUR)
    cw = ps.CumulativeWorker(name="CW", size=SIZE, cost=ps.ConstantFunction(value=COST))
    a.add_required_resource(cw)
    ind = ps.IndicatorResourceCost(list_of_resources=[cw])
    if kind == "min":
        ps.ObjectiveMinimizeIndicator(name="o", target=ind)
    else:
        ps.ObjectiveMaximizeIndicator(name="o", target=ind)
    with contextlib.redirect_stdout(io.StringIO()):
        sol = ps.SchedulingSolver(problem=pb).solve()
    if not sol:
        print("no solution"); sys.exit(1)
    schedule = (
        sorted((n, t.start, t.end, tuple(t.assigned_resources)) for n, t in sol.tasks.items()),
        sorted((n, tuple(sorted(r.assignments))) for n, r in sol.resources.items()),
    )
    return schedule, sol.indicators[ind.name]

sched_lo, cost_lo = build_and_solve("min")
sched_hi, cost_hi = build_and_solve("max")
print("schedule (cheapest) :", sched_lo, "-> reported cost", cost_lo)
print("schedule (dearest)  :", sched_hi, "-> reported cost", cost_hi)

busy = DUR  # CW is busy with one task during DUR periods
whole = COST * busy                 # CW charged at its cost per period while busy
proportional = COST * busy / SIZE   # CW charged for the share of capacity in use
print(f"cost function accumulated over busy time: {whole} (whole resource) or {proportional} (1/{SIZE} of capacity)")

bad = False
if sched_lo == sched_hi and cost_lo != cost_hi:
    print("VIOLATION: identical reported schedules, different reported total cost")
    bad = True
for c in (cost_lo, cost_hi):
    if min(abs(c - whole), abs(c - proportional)) > 1:
        print(f"VIOLATION: reported cost {c} is neither {whole} nor {proportional}")
        bad = True
sys.exit(1 if bad else 0)
