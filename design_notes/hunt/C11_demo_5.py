"""C11 demo 5 - a SCHEDULED task lists a worker whose own report does not list the task.

T is a mandatory variable duration task (1..4 periods) whose worker W leaves 2 periods
before the end (early_out=2).  The horizon of 1 forces T on [0, 1]; the worker interval
the requirement implies is (start, end - 2) = (0, -1).

Property: a task lists a resource exactly when the resource lists an assignment for the
task, and the assignment interval is the one the requirement implies.
"""
import contextlib
import io
import os
import sys

sys.path.insert(0, "/repo")
import processscheduler as ps

EARLY_OUT = 2

with contextlib.redirect_stdout(io.StringIO()):
    pb = ps.SchedulingProblem(name="demo5", horizon=1)
    t = ps.VariableDurationTask(name="T", min_duration=1, max_duration=4)
    w = ps.Worker(name="W")
    t.add_required_resource(w, early_out=EARLY_OUT)
    solution = ps.SchedulingSolver(problem=pb).solve()

if not solution:
    print("no solution returned, nothing to check")
    sys.exit(0)

errors = []
ts = solution.tasks["T"]
listed_by_task = set(ts.assigned_resources)
listing_the_task = {
    r_name
    for r_name, r_sol in solution.resources.items()
    if any(a[0] == "T" for a in r_sol.assignments)
}
if listed_by_task != listing_the_task:
    errors.append(
        f"task T (scheduled={ts.scheduled}, start={ts.start}, end={ts.end}) lists {sorted(listed_by_task)} "
        f"whereas the resources listing it are {sorted(listing_the_task)}"
    )
if ts.scheduled:
    implied = ("T", ts.start, ts.end - EARLY_OUT)
    if implied not in solution.resources["W"].assignments:
        errors.append(
            f"requirement implies W works on T over {implied[1:]}, W reports {solution.resources['W'].assignments}"
        )

if errors:
    print("C11 VIOLATED:")
    for e in errors:
        print("  -", e)
    sys.exit(1)
print("ok")
sys.exit(0)
