"""C06 demo 4 - an optional task that is not scheduled contributes to indicators and objectives.

Property clause: a task reported as not scheduled "contributes to no indicator or objective".

(a) IndicatorMaximumLateness takes the parking instant of the unscheduled task as a completion time.
(b) ObjectiveTasksStartLatest ("all the tasks are scheduled as late as possible") takes the parking
    instant as a start time: the minimum start is stuck at a negative value, the objective is dead
    and the mandatory task is no longer pushed to the end of the horizon.

Exit status 1 when the property is violated, 0 otherwise.
"""
import contextlib
import io
import os
import sys

sys.path.insert(0, "/repo")
import processscheduler as ps  # noqa: E402


def solve(problem, **kw):
    with contextlib.redirect_stdout(io.StringIO()):
        return ps.SchedulingSolver(problem=problem, **kw).solve()


failures = []

# ---------------------------------------------------------------- (a) maximum lateness
DUE = {"T": 0, "A": 15}
pb = ps.SchedulingProblem(name="lateness", horizon=20)
t = ps.FixedDurationTask(name="T", duration=2, optional=True, due_date=DUE["T"], due_date_is_deadline=False)
a = ps.FixedDurationTask(name="A", duration=2, due_date=DUE["A"], due_date_is_deadline=False)
ps.TaskStartAt(task=a, value=0)
ps.OptionalTaskForceSchedule(task=t, to_be_scheduled=False)
ind = ps.IndicatorMaximumLateness()
sol = solve(pb)
if not sol:
    failures.append("(a) no solution")
else:
    scheduled = [n for n, ts in sol.tasks.items() if ts.scheduled]
    # lateness L_j = C_j - d_j, maximum over the tasks that are actually processed
    expected = max(sol.tasks[n].end - DUE[n] for n in scheduled)
    got = sol.indicators[ind.name]
    if got != expected:
        failures.append(
            f"(a) IndicatorMaximumLateness: scheduled tasks are {scheduled}, A ends at {sol.tasks['A'].end} "
            f"and is due at 15, so the maximum lateness is {expected}; the library reports {got} "
            f"(= parking instant {sol.tasks['T'].end} of the unscheduled T minus its due date 0)"
        )


# ---------------------------------------------------------------- (b) start latest
def start_latest(with_optional_task):
    pb = ps.SchedulingProblem(name="latest", horizon=20)
    if with_optional_task:
        t = ps.FixedDurationTask(name="T", duration=2, optional=True)
        ps.OptionalTaskForceSchedule(task=t, to_be_scheduled=False)
    ps.FixedDurationTask(name="A", duration=2)
    ps.ObjectiveTasksStartLatest()
    return pb


for optimizer in ("incremental", "optimize"):
    reduced = solve(start_latest(False), optimizer=optimizer)
    full = solve(start_latest(True), optimizer=optimizer)
    if not reduced or not full:
        failures.append(f"(b) {optimizer}: no solution")
        continue
    best = reduced.tasks["A"].start  # optimum of the problem with T deleted (18 = 20 - 2)
    got = full.tasks["A"].start
    min_start_scheduled = min(ts.start for ts in full.tasks.values() if ts.scheduled)
    reported = full.indicators["MinimumStartTime"]
    if got != best or reported != min_start_scheduled:
        failures.append(
            f"(b) ObjectiveTasksStartLatest, {optimizer}: with T deleted the optimum puts A at {best}; with T present "
            f"but not scheduled the 'optimal' schedule puts A at {got} and the optimised indicator MinimumStartTime "
            f"is {reported} whereas the smallest start among scheduled tasks is {min_start_scheduled}"
        )

if failures:
    print("C06 VIOLATED (indicators / objectives):")
    for f in failures:
        print(" -", f)
    sys.exit(1)
print("ok: unscheduled optional tasks do not contribute to lateness nor to the start-latest objective")
sys.exit(0)
