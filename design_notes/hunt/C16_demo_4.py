"""C16 / Excel export reproduces the resource assignments.

A worker processes a 3-period task T1 from 0 and a zero-duration task
(milestone) M at instant 0.  Both assignments are reported in
solution.resources["W"].assignments, but in the workbook's "GANTT Resource view"
the cell written for M lands on the first cell of T1's merged bar and replaces
its text: T1 has vanished from the worker's row (the bar B2:D2 is labelled M).
"""
import contextlib
import io
import os
import re
import sys
import tempfile
import zipfile
import xml.etree.ElementTree as ET

sys.path.insert(0, "/repo")
import processscheduler as ps

NS = "{http://schemas.openxmlformats.org/spreadsheetml/2006/main}"


def quiet(func, *args, **kwargs):
    with contextlib.redirect_stdout(io.StringIO()):
        return func(*args, **kwargs)


def read_sheet(filename, sheet_name):
    """minimal xlsx reader: {(row, col): value} for one sheet"""
    with zipfile.ZipFile(filename) as archive:
        strings = []
        if "xl/sharedStrings.xml" in archive.namelist():
            root = ET.fromstring(archive.read("xl/sharedStrings.xml"))
            for item in root.findall(f"{NS}si"):
                strings.append("".join(t.text or "" for t in item.iter(f"{NS}t")))
        workbook = ET.fromstring(archive.read("xl/workbook.xml"))
        names = [s.get("name") for s in workbook.find(f"{NS}sheets")]
        index = names.index(sheet_name) + 1
        sheet = ET.fromstring(archive.read(f"xl/worksheets/sheet{index}.xml"))
    cells = {}
    for cell in sheet.iter(f"{NS}c"):
        value = cell.find(f"{NS}v")
        if value is None:
            continue
        letters = re.match(r"[A-Z]+", cell.get("r")).group(0)
        col = 0
        for char in letters:
            col = col * 26 + ord(char) - 64
        row = int(cell.get("r")[len(letters):])
        text = strings[int(value.text)] if cell.get("t") == "s" else value.text
        cells[(row - 1, col - 1)] = text
    return cells


problem = ps.SchedulingProblem(name="Milestone", horizon=5)
t1 = ps.FixedDurationTask(name="T1", duration=3)
milestone = ps.ZeroDurationTask(name="M")
worker = ps.Worker(name="W")
t1.add_required_resource(worker)
milestone.add_required_resource(worker)
ps.TaskStartAt(task=t1, value=0)
ps.TaskStartAt(task=milestone, value=0)

solution = quiet(ps.SchedulingSolver(problem=problem).solve)
assert solution, "problem should be satisfiable"
assignments = solution.resources["W"].assignments
assert sorted(assignments) == [("M", 0, 0), ("T1", 0, 3)], assignments

filename = os.path.join(tempfile.mkdtemp(), "milestone.xlsx")
solution.to_excel_file(filename)
cells = read_sheet(filename, "GANTT Resource view")

# locate the row of worker W (names are in the first column)
rows = [r for (r, c), v in cells.items() if c == 0 and v == "W"]
assert len(rows) == 1
row_texts = [v for (r, c), v in cells.items() if r == rows[0] and c > 0]

missing = [name for name, _, _ in assignments if name not in row_texts]
if missing:
    print(
        "VIOLATION: the Excel resource view of worker W shows "
        f"{row_texts} but the solution reports the assignments {assignments}; "
        f"lost: {missing}"
    )
    sys.exit(1)
print("ok", row_texts)
sys.exit(0)
