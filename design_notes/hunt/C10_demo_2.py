"""C10 demo 2 - TaskUnloadBuffer / TaskLoadBuffer ignore both `optional=True`
and the combination they are used in: the buffer movement is always enforced.

Set-up: a buffer that is empty (initial_level=0, lower_bound=0) and one task t1
of duration 2, horizon 4.  Unloading 3 items is therefore impossible.

 case A  TaskUnloadBuffer(..., optional=True)
         "All Task constraints can be defined as either mandatory or optional ...
          may or may not apply" (docs/task_constraints.md) -> the solver may leave
         it unapplied, a schedule exists.
 case B  Or([TaskUnloadBuffer(...), TaskStartAt(t1, 0)])
         the Or is satisfied by its second operand alone; the first operand must
         not be enforced on its own -> a schedule exists.
 case C  Implies(condition=False, [TaskUnloadBuffer(...)])
         a false premise implies nothing -> a schedule exists.

The oracle below enumerates (start of t1, "is the unload carried out?") and
simulates the buffer level to decide whether a schedule satisfying the formula
exists.  exit 1 = property violated (library says "no solution" although one
exists, or returns a schedule in which the formula is false).
"""
import contextlib
import io
import os
import sys

sys.path.insert(0, "/repo")

import processscheduler as ps  # noqa: E402

HORIZON, DURATION, INITIAL, LOWER, QUANTITY = 4, 2, 0, 0, 3


def solve(problem):
    with contextlib.redirect_stdout(io.StringIO()):
        solver = ps.SchedulingSolver(problem=problem)
        return solver.solve()


def new_problem(tag):
    pb = ps.SchedulingProblem(name=f"demo2_{tag}", horizon=HORIZON)
    t1 = ps.FixedDurationTask(name="t1", duration=DURATION)
    buf = ps.NonConcurrentBuffer(name="buf", initial_level=INITIAL, lower_bound=LOWER)
    return pb, t1, buf


def case_a(t1, buf):
    ps.TaskUnloadBuffer(task=t1, buffer=buf, quantity=QUANTITY, optional=True)


def case_b(t1, buf):
    ps.Or(
        list_of_constraints=[
            ps.TaskUnloadBuffer(task=t1, buffer=buf, quantity=QUANTITY),
            ps.TaskStartAt(task=t1, value=0),
        ]
    )


def case_c(t1, buf):
    ps.Implies(
        condition=False,
        list_of_constraints=[
            ps.TaskUnloadBuffer(task=t1, buffer=buf, quantity=QUANTITY)
        ],
    )


# formula of each case over (start, unload_done)
CASES = {
    "A optional TaskUnloadBuffer": (case_a, lambda start, unload: True),
    "B Or([TaskUnloadBuffer, TaskStartAt(t1,0)])": (
        case_b,
        lambda start, unload: unload or start == 0,
    ),
    "C Implies(False, [TaskUnloadBuffer])": (case_c, lambda start, unload: True),
}


def oracle_schedules(formula):
    """all (start, unload_done) with a legal buffer trajectory and a true formula"""
    found = []
    for start in range(0, HORIZON - DURATION + 1):
        for unload in (False, True):
            level_after = INITIAL - (QUANTITY if unload else 0)
            if min(INITIAL, level_after) < LOWER:
                continue  # the buffer would go below its lower bound
            if formula(start, unload):
                found.append((start, unload))
    return found


violations = []
for label, (build, formula) in CASES.items():
    pb, t1, buf = new_problem(label[0])
    build(t1, buf)
    sol = solve(pb)
    feasible = oracle_schedules(formula)
    if not sol:
        if feasible:
            violations.append(
                f"case {label}: library reports no solution, but e.g. (t1 start, unload "
                f"carried out) = {feasible[0]} satisfies the formula and keeps the "
                f"buffer >= {LOWER}"
            )
    else:
        levels = sol.buffers["buf"].level
        unload_done = levels[-1] != INITIAL
        if (sol.tasks["t1"].start, unload_done) not in feasible:
            violations.append(f"case {label}: returned schedule is not a model")

if violations:
    print("C10 VIOLATED - buffer constraints are enforced regardless of optional/connective:")
    for v in violations:
        print("  -", v)
    sys.exit(1)
print("ok: optional / combined buffer constraints can be left out")
sys.exit(0)
