"""C17 / "rendering succeeds for every valid solution": names are free strings
(no validation anywhere in the library), but the plotter hands them verbatim to
matplotlib, which interprets every pair of '$' as mathtext.  A task / resource /
buffer / problem name with two '$' (e.g. "US$ #1, US$ #2", an unexpanded template
"${job}_${id}", "T$i_$j") makes the drawing of the chart raise ValueError; when the
math happens to parse, the name is drawn altered (the '$' disappear).

Checker: the chart must be drawable (savefig through fig_filename, as documented),
and the row label / bar text must be the literal reported name.
"""
import os, sys, io, contextlib, warnings
sys.path.insert(0, "/repo")
import matplotlib
matplotlib.use("Agg")
import matplotlib.pyplot as plt
import processscheduler as ps

warnings.simplefilter("ignore")

NAMES = ["US$ #1, US$ #2", "${job}_${id}", "T$i_$j"]
failures = []
out_png = os.path.join(os.path.dirname(os.path.abspath(__file__)), "_demo_3_gantt.png")

for kind in ("task", "worker", "problem", "buffer"):
    for nm in NAMES:
        pb = ps.SchedulingProblem(name=nm if kind == "problem" else "pb", horizon=5)
        t = ps.FixedDurationTask(name=nm if kind == "task" else "T", duration=2)
        w = ps.Worker(name=nm if kind == "worker" else "W")
        t.add_required_resource(w)
        if kind == "buffer":
            buf = ps.NonConcurrentBuffer(name=nm, initial_level=3)
            ps.TaskLoadBuffer(task=t, buffer=buf, quantity=1)
        with contextlib.redirect_stdout(io.StringIO()):
            sol = ps.SchedulingSolver(problem=pb).solve()
        assert sol, "no solution"
        # the solution itself is perfectly fine
        assert sol.tasks[t.name].scheduled and sol.resources[w.name].assignments
        for mode in ("Resource", "Task"):
            plt.close("all")
            try:
                ps.render_gantt_matplotlib(
                    sol, show_plot=False, render_mode=mode, fig_filename=out_png
                )
            except Exception as exc:  # rendering must succeed
                first = str(exc).strip().splitlines()
                failures.append(
                    f"{kind} named {nm!r}, {mode} view: rendering raised "
                    f"{type(exc).__name__}: {(first[-1] if first else '')[:90]}"
                )

if os.path.exists(out_png):
    os.remove(out_png)

if failures:
    print("VIOLATION: rendering a valid solution fails")
    print("\n".join(failures))
    sys.exit(1)
print("ok")
sys.exit(0)
