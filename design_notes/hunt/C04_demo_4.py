"""C04 / unavailability + workload clauses, call sequence.

Every resource constraint takes a snapshot of the worker's busy intervals in its
constructor.  A task that is given the worker AFTER the constraint was created
is silently ignored by the (mandatory) constraint.

w is unavailable in (0,10) and may be busy at most 1 period in (0,10).
A gets w, the two constraints are declared, then B gets w.  B is pinned at 3.
"""
import contextlib, io, os, sys
sys.path.insert(0, "/repo")
import processscheduler as ps


def solve(problem, **kwargs):
    """solve quietly with the default solver settings"""
    with contextlib.redirect_stdout(io.StringIO()), contextlib.redirect_stderr(io.StringIO()):
        return ps.SchedulingSolver(problem=problem, **kwargs).solve()


def overlap(s, e, a, b):
    """length of the intersection of [s, e) and [a, b)"""
    return max(0, min(e, b) - max(s, a))

UNAVAILABLE = [(0, 10)]
WORKLOAD = {(0, 10): 1}
pb = ps.SchedulingProblem(name="demo4", horizon=20)
w = ps.Worker(name="w")
A = ps.FixedDurationTask(name="A", duration=2)
B = ps.FixedDurationTask(name="B", duration=2)
A.add_required_resource(w)
ps.ResourceUnavailable(resource=w, list_of_time_intervals=UNAVAILABLE)
ps.WorkLoad(resource=w, dict_time_intervals_and_bound=WORKLOAD, kind="max")
B.add_required_resource(w)  # assigned after the constraints were declared
ps.TaskStartAt(task=B, value=3)

sol = solve(pb)
if not sol:
    print("OK: no schedule returned")
    sys.exit(0)

errors = []
busy = sol.resources["w"].assignments
print("w is busy during", busy)
for name, s, e in busy:
    for a, b in UNAVAILABLE:
        if overlap(s, e, a, b) > 0:
            errors.append(f"w works on {name} [{s},{e}) inside its unavailability ({a},{b})")
for (a, b), bound in WORKLOAD.items():
    total = sum(overlap(s, e, a, b) for _, s, e in busy)
    if total > bound:
        errors.append(f"w is busy {total} periods in ({a},{b}), WorkLoad max is {bound}")
if errors:
    print("VIOLATION of C04:")
    for e in errors:
        print("  -", e)
    sys.exit(1)
print("OK")
sys.exit(0)
