"""C14 demo 5 - with one "maximize" and one "minimize" objective, the optimum
returned by the default (incremental) solver - and by optimizer="optimize" with
optimize_priority="weight" - depends on which objective was declared last.

Problem: horizon 10, two independent tasks T1, T2 of duration 2, no resource,
  indicator S1 = T1.start, indicator S2 = T2.start,
  ObjectiveMaximizeIndicator(S1) and ObjectiveMinimizeIndicator(S2), both weight 1.
The two tasks do not interact, so there is a single schedule that is best for both
objectives at once: S1 = 8 (as late as possible), S2 = 0 (as early as possible).  Every
reading of "multi-objective" (weighted, lexicographic in any order, Pareto) yields that
point; the demo recomputes it by brute force.  The only difference between the two runs
is the order of the two Objective declarations.

Exit status 1 = property violated, 0 = fine.
"""
import contextlib
import io
import itertools
import os
import sys

sys.path.insert(0, "/repo")
import processscheduler as ps  # noqa: E402

HORIZON = 10
DURATION = 2


def library_optimum(objective_order, **solver_args):
    pb = ps.SchedulingProblem(name="MixedKinds", horizon=HORIZON)
    t1 = ps.FixedDurationTask(name="T1", duration=DURATION)
    t2 = ps.FixedDurationTask(name="T2", duration=DURATION)
    s1 = ps.IndicatorFromMathExpression(name="S1", expression=t1._start)
    s2 = ps.IndicatorFromMathExpression(name="S2", expression=t2._start)
    for which in objective_order:
        if which == "maxS1":
            ps.ObjectiveMaximizeIndicator(target=s1, weight=1)
        else:
            ps.ObjectiveMinimizeIndicator(target=s2, weight=1)
    solver = ps.SchedulingSolver(problem=pb, **solver_args)
    with contextlib.redirect_stdout(io.StringIO()):
        solution = solver.solve()
    if not solution:
        return None
    # read the objective values off the schedule itself
    return solution.tasks["T1"].start, solution.tasks["T2"].start


def reference_optimum():
    """the non-dominated (S1, S2) points over all valid schedules"""
    points = list(itertools.product(range(HORIZON - DURATION + 1), repeat=2))
    pareto = [
        p for p in points
        if not any((q[0] >= p[0] and q[1] <= p[1]) and q != p for q in points)
    ]
    return pareto


def main():
    pareto = reference_optimum()
    print(f"non-dominated (S1 max, S2 min) points by brute force: {pareto}")
    failed = False
    for solver_args in ({}, {"optimizer": "optimize", "optimize_priority": "weight"}):
        r1 = library_optimum(["maxS1", "minS2"], **solver_args)
        r2 = library_optimum(["minS2", "maxS1"], **solver_args)
        print(f"solver args {solver_args}: declared max,min -> (S1,S2)={r1}; "
              f"declared min,max -> (S1,S2)={r2}")
        if r1 != r2:
            print("  VIOLATION: permuting the two objective declarations changes the optimum")
            failed = True
        for r in (r1, r2):
            if r not in pareto:
                print(f"  VIOLATION: {r} is not an optimum of (maximize S1, minimize S2)")
                failed = True
    return 1 if failed else 0


if __name__ == "__main__":
    sys.exit(main())
