"""C14 demo 2 - ResourcePeriodicallyInterrupted with `start` (or `end`): the
verdict depends on which task was declared/assigned to the resource last.

Problem: horizon 20, worker W, two FixedDurationTask (duration 2) that both need W,
  Early pinned at 0 (TaskStartAt), Late pinned at LATE_START,
  ResourcePeriodicallyInterrupted(W, [(1, 3)], period=10, start=5)
Documented meaning (docstring of the class): the interruptions are (1,3), (11,13),
(21,23) ...; `start` is "the start after which repeating the list of time intervals is
active"; a fixed-duration task cannot be interrupted, hence must not overlap an
active interruption.  Early=[0,2] ends before start=5, so it is exempt.
  LATE_START = 11 -> Late=[11,13] sits on the interruption (11,13): infeasible
  LATE_START = 13 -> Late=[13,15] touches nothing: feasible
The only thing that differs between the two runs of a scenario is the order in
which the two tasks are declared (each one is assigned to W right after its creation).

Exit status 1 = property violated, 0 = fine.
"""
import contextlib
import io
import os
import sys

sys.path.insert(0, "/repo")
import processscheduler as ps  # noqa: E402

HORIZON = 20
DURATION = 2
PERIOD = 10
INTERVAL = (1, 3)
START = 5


def library_verdict(declaration_order, late_start):
    pb = ps.SchedulingProblem(name="PeriodicDemo", horizon=HORIZON)
    worker = ps.Worker(name="W")
    tasks = {}
    for name in declaration_order:
        tasks[name] = ps.FixedDurationTask(name=name, duration=DURATION)
        tasks[name].add_required_resource(worker)
    ps.TaskStartAt(task=tasks["Early"], value=0)
    ps.TaskStartAt(task=tasks["Late"], value=late_start)
    ps.ResourcePeriodicallyInterrupted(
        resource=worker, list_of_time_intervals=[INTERVAL], period=PERIOD, start=START
    )
    solver = ps.SchedulingSolver(problem=pb)
    with contextlib.redirect_stdout(io.StringIO()):
        solution = solver.solve()
    return bool(solution)


def reference_verdict(late_start):
    """Both tasks are pinned, so there is one candidate schedule: check it."""
    spans = [(0, DURATION), (late_start, late_start + DURATION)]
    # one worker: no overlap between the two tasks, everything inside the horizon
    (s1, e1), (s2, e2) = spans
    if not (e1 <= s2 or e2 <= s1) or max(e1, e2) > HORIZON:
        return False
    for s, e in spans:
        if e <= START:  # finished before the periodic pattern becomes active
            continue
        k = 0
        while INTERVAL[0] + k * PERIOD < HORIZON:
            low, up = INTERVAL[0] + k * PERIOD, INTERVAL[1] + k * PERIOD
            if s < up and e > low:  # the task overlaps an interruption
                return False
            k += 1
    return True


def main():
    failed = False
    for late_start in (11, 13):
        expected = reference_verdict(late_start)
        v1 = library_verdict(["Early", "Late"], late_start)
        v2 = library_verdict(["Late", "Early"], late_start)
        print(f"Late pinned at {late_start}: reference feasible={expected}; "
              f"declared Early,Late -> {v1}; declared Late,Early -> {v2}")
        if v1 != v2:
            print("  VIOLATION: permuting the task declaration order changes the verdict")
            failed = True
        if v1 != expected or v2 != expected:
            print("  VIOLATION: a verdict differs from the documented meaning")
            failed = True
    return 1 if failed else 0


if __name__ == "__main__":
    sys.exit(main())
