"""C18 / clause "a selection of more workers than listed or from fewer than two".

docs/resource_assignment.md: nb_workers_to_select "can be any integer between 1
and the total number of eligible workers in the list".  The eligible workers of
[W, W] are ONE worker: a selection "from" it has fewer than two candidates, and
nb_workers_to_select=2 asks for more workers than are listed.
"""
import os, sys, io, contextlib

sys.path.insert(0, "/repo")
import processscheduler as ps

violations = []
for nb in (1, 2):
    problem = ps.SchedulingProblem(name=f"demo6_{nb}", horizon=10)
    task = ps.FixedDurationTask(name="T", duration=2)
    w = ps.Worker(name="W")
    listed = [w, w]
    eligible = {x.name for x in listed}  # independent count of the distinct workers listed
    ill_formed = len(eligible) < 2 or nb > len(eligible)
    try:
        sw = ps.SelectWorkers(list_of_workers=listed, nb_workers_to_select=nb, kind="exact")
    except Exception as exc:
        print(f"nb={nb}: rejected ({type(exc).__name__})")
        continue
    print(f"nb={nb}: ACCEPTED a selection of {nb} among {len(eligible)} distinct worker(s)")
    if ill_formed:
        violations.append(f"SelectWorkers([W, W], nb_workers_to_select={nb})")
    task.add_required_resource(sw)
    with contextlib.redirect_stdout(io.StringIO()):
        sol = ps.SchedulingSolver(problem=problem).solve()
    print(f"        solving the model that uses it: {'solution found' if sol else 'no solution'}")

# control: the library does apply both rules when the two entries are different objects
problem = ps.SchedulingProblem(name="demo6_ctrl", horizon=10)
w1, w2 = ps.Worker(name="W1"), ps.Worker(name="W2")
for label, kwargs in [("[W1] nb=1", dict(list_of_workers=[w1])),
                      ("[W1, W2] nb=3", dict(list_of_workers=[w1, w2], nb_workers_to_select=3))]:
    try:
        ps.SelectWorkers(**kwargs)
        print(f"control {label}: accepted")
    except Exception as exc:
        print(f"control {label}: rejected ({type(exc).__name__})")

if violations:
    print("VIOLATION: ill-formed selection accepted: " + "; ".join(violations))
    sys.exit(1)
print("ok")
sys.exit(0)
