"""C05 demo 3 - ResourcePeriodicallyUnavailable / ResourcePeriodicallyInterrupted
fold the busy interval with `% period`.  An optional task that is NOT scheduled
sits at the internal negative point -task_number; folded, that point can land
inside the forbidden window, so "leave the optional task out" is rejected.

Worker W is unavailable during (6, 10) of every period of 10.  The optional
task T needs 7 consecutive periods of W, which never fit: the only valid
schedule is "T not scheduled" - and the solver says "no solution exists".

Run:  cd /tmp/h1_C05 && /venv/bin/python _hunt/demo_3.py
exit 1 = property violated, exit 0 = library behaves as documented.
"""
import contextlib
import io
import os
import sys

sys.path.insert(0, "/repo")
import processscheduler as ps

HORIZON = 30
PERIOD = 10
WINDOWS = [(6, 10)]  # in one period
DURATION = 7


def candidate_is_valid(schedule):
    """schedule: {"T": None | (start, end)} - documented semantics:
    docstring of ResourcePeriodicallyUnavailable: 'time intervals in one period
    during which the resource is unavailable for any task', repeated every
    `period`; an optional task may be left out, and then uses no resource."""
    interval = schedule["T"]
    if interval is None:
        return True  # T is optional; nothing else in the problem
    start, end = interval
    if not (0 <= start and end - start == DURATION and end <= HORIZON):
        return False
    k = 0
    while k * PERIOD <= HORIZON:
        for low, up in WINDOWS:
            lo, hi = low + k * PERIOD, up + k * PERIOD
            if not (start >= hi or end <= lo):
                return False
        k += 1
    return True


def run(constraint_class):
    pb = ps.SchedulingProblem(name=f"demo3_{constraint_class.__name__}", horizon=HORIZON)
    worker = ps.Worker(name="W")
    task = ps.FixedDurationTask(name="T", duration=DURATION, optional=True)
    task.add_required_resource(worker)
    constraint_class(resource=worker, list_of_time_intervals=WINDOWS, period=PERIOD)
    out = io.StringIO()
    with contextlib.redirect_stdout(out):
        solution = ps.SchedulingSolver(problem=pb).solve()
    return solution, out.getvalue()


def main():
    candidate = {"T": None}
    assert candidate_is_valid(candidate)
    # by the documented meaning T can never be scheduled (7 > 6 free periods)
    assert not any(
        candidate_is_valid({"T": (s, s + DURATION)}) for s in range(HORIZON)
    )

    violated = False
    for cls in (ps.ResourcePeriodicallyUnavailable, ps.ResourcePeriodicallyInterrupted):
        solution, log = run(cls)
        if not solution and "no solution exists" in log:
            print(f"VIOLATION ({cls.__name__}): the schedule {candidate} "
                  "(optional task left out) is valid, but the solver reports "
                  "'no solution exists'.")
            violated = True
        elif solution:
            t = solution.tasks["T"]
            print(f"{cls.__name__}: solution found, T scheduled={t.scheduled}")
    sys.exit(1 if violated else 0)


if __name__ == "__main__":
    main()
