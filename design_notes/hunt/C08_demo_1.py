"""C08 / 'bounds declared as constraints hold in the solution'.

docs/indicator.md: "Customized indicators can also be bounded [...] Bounds are
constraints over an indicator value."  The bounds passed to an indicator are
stored but never asserted.
"""
import contextlib, io, os, sys
sys.path.insert(0, "/repo")
import processscheduler as ps

LOW, UP = 15, 20
pb = ps.SchedulingProblem(name="bounds", horizon=20)
t = ps.FixedDurationTask(name="t", duration=3)
ps.IndicatorFromMathExpression(name="t_end", expression=t._end, bounds=(LOW, UP))

with contextlib.redirect_stdout(io.StringIO()):
    sol = ps.SchedulingSolver(problem=pb).solve()

if not sol:
    print("no solution returned (a schedule with t ending in 15..20 exists)")
    sys.exit(1)
reported = sol.indicators["t_end"]
actual_end = sol.tasks["t"].end
print(f"task t ends at {actual_end}; indicator t_end = {reported}; declared bounds = ({LOW}, {UP})")
if reported != actual_end:
    print("VIOLATION: indicator differs from its expression on the schedule")
    sys.exit(1)
if not LOW <= reported <= UP:
    print("VIOLATION: the indicator value is outside the bounds declared on the indicator")
    sys.exit(1)
print("ok")
