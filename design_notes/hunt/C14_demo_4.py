"""C14 demo 4 - solving an unrelated, earlier built problem modifies a later problem.

Problem A (unrelated, built first): two tasks, a precedence, TWO objectives
  (ObjectiveMinimizeMakespan + ObjectiveMinimizeFlowtime), default (incremental) solver.
Problem B (under test, built second): two tasks of duration 3 on one worker,
  ObjectiveMinimizeMakespan.  Its optimal makespan is 3 + 3 = 6.

Sequence:  build A, create A's solver, build B, solve A, solve B.
Solving A builds the "equivalent weighted objective"; the indicator and the
objective created for that purpose are registered in the *active* problem, which is B
(the problem created last), not in the solver's own problem A.  B thereby receives an
objective "MinimizeEquivalentObjective" over a variable that is unconstrained in B.

The demo solves B once alone (control) and once after the sequence above, and checks
that B's declared objectives, verdict and optimal makespan are the same, and that the
makespan equals the independently computed optimum.

Exit status 1 = property violated, 0 = fine.
"""
import contextlib
import io
import os
import sys

sys.path.insert(0, "/repo")
import processscheduler as ps  # noqa: E402

B_DURATIONS = (3, 3)


def build_a():
    pa = ps.SchedulingProblem(name="A", horizon=10)
    a1 = ps.FixedDurationTask(name="a1", duration=2)
    a2 = ps.FixedDurationTask(name="a2", duration=2)
    ps.TaskPrecedence(task_before=a1, task_after=a2)
    ps.ObjectiveMinimizeMakespan()
    ps.ObjectiveMinimizeFlowtime()
    return pa


def build_b():
    pb = ps.SchedulingProblem(name="B")
    worker = ps.Worker(name="w")
    for i, duration in enumerate(B_DURATIONS):
        task = ps.FixedDurationTask(name=f"b{i}", duration=duration)
        task.add_required_resource(worker)
    ps.ObjectiveMinimizeMakespan()
    return pb


def solve(problem):
    """returns (verdict, makespan, error)"""
    try:
        solver = ps.SchedulingSolver(problem=problem, max_time=10)
        with contextlib.redirect_stdout(io.StringIO()):
            solution = solver.solve()
    except Exception as exc:  # pylint: disable=broad-except
        return None, None, f"{type(exc).__name__}: {exc}"
    if not solution:
        return False, None, None
    makespan = max(t.end for t in solution.tasks.values())
    return True, makespan, None


def main():
    # the optimum from the documented meaning: one worker processes one task at a time
    expected_makespan = sum(B_DURATIONS)

    # control: B alone
    pb_control = build_b()
    control_objectives = sorted(pb_control.objectives)
    control = solve(pb_control)

    # B built after A, A solved before B
    pa = build_a()
    solver_a = ps.SchedulingSolver(problem=pa)
    pb = build_b()
    objectives_before = sorted(pb.objectives)
    with contextlib.redirect_stdout(io.StringIO()):
        solution_a = solver_a.solve()
    objectives_after = sorted(pb.objectives)
    indicators_after = sorted(pb.indicators)
    after = solve(pb)

    print(f"A solved: {bool(solution_a)}")
    print(f"B alone        : objectives={control_objectives} (verdict, makespan, error)={control}")
    print(f"B after solve A: objectives={objectives_after} indicators={indicators_after} "
          f"(verdict, makespan, error)={after}")
    failed = False
    if objectives_after != objectives_before or objectives_after != control_objectives:
        print("VIOLATION: solving problem A changed the objectives of problem B")
        failed = True
    if after != control:
        print("VIOLATION: problem B does not give the same result after problem A was solved")
        failed = True
    if control != (True, expected_makespan, None) or after != (True, expected_makespan, None):
        print(f"VIOLATION: expected a feasible B with optimal makespan {expected_makespan}")
        failed = True
    return 1 if failed else 0


if __name__ == "__main__":
    sys.exit(main())
