"""C16 / Excel export (documented `colors` flag) must succeed for every valid solution.

to_excel_file(..., colors=True) derives the bar colour from the decimal digits
of crc32(text)[2:8].  For a scheduled task that has no resource the text is ""
(crc32 == 0 -> "0"[2:8] == "" -> colour "#"): xlsxwriter rejects it and the
export raises, although the same solution exports fine with colors=False.
"""
import contextlib
import io
import os
import sys
import tempfile
import zipfile

sys.path.insert(0, "/repo")
import processscheduler as ps


def quiet(func, *args, **kwargs):
    with contextlib.redirect_stdout(io.StringIO()):
        return func(*args, **kwargs)


def try_export(label, solution, colors):
    filename = os.path.join(tempfile.mkdtemp(), "out.xlsx")
    try:
        solution.to_excel_file(filename, colors=colors)
    except Exception as exc:  # pylint: disable=broad-except
        return f"{label}, colors={colors}: {type(exc).__name__}: {exc}"
    # a written workbook must be a readable zip archive with the three sheets
    with zipfile.ZipFile(filename) as archive:
        sheets = [n for n in archive.namelist() if n.startswith("xl/worksheets/sheet")]
    if len(sheets) != 3:
        return f"{label}, colors={colors}: workbook has {len(sheets)} sheets"
    return None


failures = []

# case 1: a task that needs no resource at all
problem = ps.SchedulingProblem(name="NoResource", horizon=5)
ps.FixedDurationTask(name="T1", duration=2)
solution = quiet(ps.SchedulingSolver(problem=problem).solve)
assert solution and solution.tasks["T1"].scheduled
assert solution.tasks["T1"].assigned_resources == []
for colors in (False, True):
    failures.append(try_export("task without resource", solution, colors))

failures = [f for f in failures if f]
if failures:
    print("VIOLATION: Excel export failed on valid solutions")
    for failure in failures:
        print("  -", failure)
    sys.exit(1)
print("ok")
sys.exit(0)
