"""C11 demo 2 - a CumulativeWorker offered inside a SelectWorkers: the task lists it,
the cumulative worker's own report lists nothing.

SelectWorkers.list_of_workers is typed List[Union[Worker, CumulativeWorker]], so a
cumulative worker is a legal alternative.  Horizon 3; T0 (duration 3) takes the plain
worker W for the whole horizon, therefore T1 (duration 3), which needs exactly one of
{Oven (cumulative, size 2), W}, has to be processed by Oven.

Property: a task lists a resource exactly when that resource lists an assignment for
the task, on the interval the requirement implies (here the whole task).
"""
import contextlib
import io
import os
import sys

sys.path.insert(0, "/repo")
import processscheduler as ps

with contextlib.redirect_stdout(io.StringIO()):
    pb = ps.SchedulingProblem(name="demo2", horizon=3)
    t0 = ps.FixedDurationTask(name="T0", duration=3)
    t1 = ps.FixedDurationTask(name="T1", duration=3)
    w = ps.Worker(name="W")
    oven = ps.CumulativeWorker(name="Oven", size=2)
    t0.add_required_resource(w)
    t1.add_required_resource(
        ps.SelectWorkers(list_of_workers=[oven, w], nb_workers_to_select=1, kind="exact")
    )
    solution = ps.SchedulingSolver(problem=pb).solve()

if not solution:
    print("no solution returned, nothing to check")
    sys.exit(0)

errors = []
alternatives = ["Oven", "W"]
for t_name, t_sol in solution.tasks.items():
    listed_by_task = set(t_sol.assigned_resources)
    listing_the_task = {
        r_name
        for r_name, r_sol in solution.resources.items()
        if any(a[0] == t_name for a in r_sol.assignments)
    }
    if listed_by_task != listing_the_task:
        errors.append(
            f"task {t_name} lists {sorted(listed_by_task)} whereas the resources that list "
            f"an assignment for it are {sorted(listing_the_task)}"
        )

# the requirement of T1: exactly one of the alternatives works on it, on [start, end]
t1_sol = solution.tasks["T1"]
workers_on_t1 = [
    r
    for r in alternatives
    if (("T1", t1_sol.start, t1_sol.end) in solution.resources[r].assignments)
]
if len(workers_on_t1) != 1:
    errors.append(
        f"T1 needs exactly 1 of {alternatives} on ({t1_sol.start}, {t1_sol.end}); the resource "
        f"reports show {workers_on_t1} "
        f"(Oven: {solution.resources['Oven'].assignments}, W: {solution.resources['W'].assignments})"
    )

if errors:
    print("C11 VIOLATED:")
    for e in errors:
        print("  -", e)
    sys.exit(1)
print("ok")
sys.exit(0)
