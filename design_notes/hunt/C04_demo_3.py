"""C04 / unavailability clause, cumulative worker chosen through a selection.

A CumulativeWorker may legally be listed in a SelectWorkers.  When a task gets
the cumulative worker through such a selection, the busy interval is stored on
the CumulativeWorker object itself, whereas every resource constraint on a
cumulative worker only looks at the busy intervals of its elementary
sub-workers.  The constraint therefore does not see the task.

cw is unavailable in (0,5).  Task A needs one of [cw, w]; w is taken by B during
the whole horizon, so A has to use cw; A is pinned at [0,2).
(C is assigned cw directly, only so that the constraint can be created.)
"""
import contextlib, io, os, sys
sys.path.insert(0, "/repo")
import processscheduler as ps


def solve(problem, **kwargs):
    """solve quietly with the default solver settings"""
    with contextlib.redirect_stdout(io.StringIO()), contextlib.redirect_stderr(io.StringIO()):
        return ps.SchedulingSolver(problem=problem, **kwargs).solve()


def overlap(s, e, a, b):
    """length of the intersection of [s, e) and [a, b)"""
    return max(0, min(e, b) - max(s, a))

UNAVAILABLE = [(0, 5)]
pb = ps.SchedulingProblem(name="demo3", horizon=10)
cw = ps.CumulativeWorker(name="cw", size=2)
w = ps.Worker(name="w")
A = ps.FixedDurationTask(name="A", duration=2)
B = ps.FixedDurationTask(name="B", duration=10)
C = ps.FixedDurationTask(name="C", duration=2)
A.add_required_resource(ps.SelectWorkers(list_of_workers=[cw, w], nb_workers_to_select=1))
B.add_required_resource(w)
C.add_required_resource(cw)
ps.ResourceUnavailable(resource=cw, list_of_time_intervals=UNAVAILABLE)
ps.TaskStartAt(task=A, value=0)

sol = solve(pb)
if not sol:
    print("OK: no schedule returned (cw is the only worker left for A and is unavailable in (0,5))")
    sys.exit(0)

errors = []
for name, t in sol.tasks.items():
    print(name, (t.start, t.end), "uses", t.assigned_resources)
    if "cw" in t.assigned_resources:
        for a, b in UNAVAILABLE:
            if overlap(t.start, t.end, a, b) > 0:
                errors.append(f"task {name} [{t.start},{t.end}) is processed by cw inside its unavailability ({a},{b})")
if errors:
    print("VIOLATION of C04 (a resource does no work inside its unavailability intervals):")
    for e in errors:
        print("  -", e)
    sys.exit(1)
print("OK")
sys.exit(0)
