"""C07 demo 3 - the `weight` given to a built-in objective is silently dropped.

docs/objectives.md: "The Objective class has an optional weight parameter ...
In case of a multiple objective O_i optimization process, each objective weighted
with w_i then the optimization (min or max) applies to sum(w_i O_i)."

`weight` is a declared pydantic field of every Objective subclass (an unknown
keyword would be rejected, extra="forbid"), yet ObjectiveMinimizeMakespan,
ObjectiveMinimizeResourceCost, ObjectiveMinimizeFlowtime, ObjectivePriorities,
ObjectiveTasksStartLatest/Earliest, ... do not forward it to Objective.__init__,
so the objective is created with weight 1 and the optimiser minimises the wrong
weighted sum - with no error or warning.

Problem: one task, 4 units of work, done either by
    fast : productivity 2, cost 4 / period  -> duration 2, cost 8
    slow : productivity 1, cost 1 / period  -> duration 4, cost 4
Declared objective: 5 * makespan + 1 * cost   -> fast = 18, slow = 24.
"""
import contextlib, io, math, os, sys, warnings

sys.path.insert(0, "/repo")
import processscheduler as ps

warnings.simplefilter("ignore")
WORK = 4
WORKERS = {"fast": (2, 4), "slow": (1, 1)}  # name -> (productivity, cost per period)
W_MAKESPAN, W_COST = 5, 1


def build():
    ps.SchedulingProblem(name="WeightedBuiltins", horizon=10)
    ws = [
        ps.Worker(name=n, productivity=p, cost=ps.ConstantFunction(value=c))
        for n, (p, c) in WORKERS.items()
    ]
    t = ps.VariableDurationTask(name="t", work_amount=WORK)
    t.add_required_resource(ps.SelectWorkers(list_of_workers=ws, nb_workers_to_select=1))
    o1 = ps.ObjectiveMinimizeMakespan(weight=W_MAKESPAN)
    o2 = ps.ObjectiveMinimizeResourceCost(list_of_resources=ws, weight=W_COST)
    return ps.base.active_problem, o1, o2


def weighted_value(sol):
    """recompute 5*makespan + cost from the returned schedule only"""
    task = sol.tasks["t"]
    (worker,) = task.assigned_resources
    productivity, cost = WORKERS[worker]
    duration = task.end - task.start
    assert task.start >= 0 and productivity * duration >= WORK  # schedule is valid
    makespan = max(ts.end for ts in sol.tasks.values())
    return W_MAKESPAN * makespan + W_COST * cost * duration, worker, duration


# independent optimum: the task starts at 0 with the shortest admissible duration
best = min(
    W_MAKESPAN * math.ceil(WORK / p) + W_COST * c * math.ceil(WORK / p)
    for p, c in WORKERS.values()
)

failed = False
for optimizer, priority in (("incremental", "pareto"), ("optimize", "weight")):
    pb, o1, o2 = build()
    solver = ps.SchedulingSolver(
        problem=pb, optimizer=optimizer, optimize_priority=priority
    )
    with contextlib.redirect_stdout(io.StringIO()):
        sol = solver.solve()
    assert sol, "no solution"
    value, worker, duration = weighted_value(sol)
    print(
        f"{optimizer:11s}: worker={worker} duration={duration} -> "
        f"{W_MAKESPAN}*makespan + {W_COST}*cost = {value}   (best achievable: {best}; "
        f"weight stored on the makespan objective: {o1.weight}, requested {W_MAKESPAN})"
    )
    if value != best:
        failed = True
        print(
            f"  VIOLATION: the returned schedule has weighted objective {value}, "
            f"a valid schedule reaches {best}"
        )

sys.exit(1 if failed else 0)
