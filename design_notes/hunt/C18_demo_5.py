"""C18 / clauses "every well-formed element is accepted" and "a name already used".

`name` is optional for every element (base.py: "name: str = Field(default=None)");
an element created WITHOUT a name cannot clash with a name chosen by the user,
so every well-formed unnamed element has to be accepted, however many there are.
The auto-generated name keeps only 8 decimal digits of the uuid, so a model with
a few thousand unnamed constraints of one class is refused by the duplicate-name
check (birthday collision).
"""
import os, sys

sys.path.insert(0, "/repo")
import processscheduler as ps

N = 60000  # e.g. the precedence/"start after" constraints of a large shop model

problem = ps.SchedulingProblem(name="demo5")
task = ps.FixedDurationTask(name="T", duration=1)

accepted = 0
failure = None
for i in range(N):
    try:
        # well-formed, all different (value=i), none of them named by the user
        ps.TaskStartAfter(task=task, value=i)
    except Exception as exc:
        failure = exc
        break
    accepted += 1

# checker: independent of any expected number - all N well-formed creations must succeed,
# and the only names in play are the ones the library generated itself
user_named = [n for n in problem.constraints if not n.startswith("TaskStartAfter_")]
assert not user_named
if failure is not None:
    print(f"accepted {accepted} unnamed TaskStartAfter constraints, then creation #{accepted + 1} was refused:")
    print(f"  {type(failure).__name__}: {failure}")
    print("VIOLATION: a well-formed element, given no name by the user, is rejected as a duplicate name")
    sys.exit(1)
print(f"ok: all {N} unnamed constraints accepted")
sys.exit(0)
