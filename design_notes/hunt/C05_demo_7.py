"""C05 demo 7 - TasksDontOverlap is encoded with Xor instead of Or.
docs/task_constraints.md: 'task_1 ends before the task_2 is started or the
opposite'.  For two zero-length tasks at the same instant BOTH alternatives
hold (each ends no later than the other starts, the intervals share no period),
Xor(true, true) is false, and the schedule is rejected.

Run:  cd /tmp/h1_C05 && /venv/bin/python _hunt/demo_7.py
exit 1 = property violated, exit 0 = library behaves as documented.
"""
import contextlib
import io
import os
import sys

sys.path.insert(0, "/repo")
import processscheduler as ps

HORIZON = 10


def overlap_length(i1, i2):
    """number of time periods shared by two intervals"""
    return max(0, min(i1[1], i2[1]) - max(i1[0], i2[0]))


def candidate_is_valid(schedule):
    a, b = schedule["A"], schedule["B"]
    for s, e in (a, b):
        if not (0 <= s == e <= HORIZON):  # milestones: start == end
            return False
    # documented: A ends before B starts, or B ends before A starts (lax, as
    # for the worker no-overlap rule: end <= start)
    return (a[1] <= b[0] or b[1] <= a[0]) and overlap_length(a, b) == 0


def main():
    candidate = {"A": (3, 3), "B": (3, 3)}
    assert candidate_is_valid(candidate)

    pb = ps.SchedulingProblem(name="demo7", horizon=HORIZON)
    a = ps.ZeroDurationTask(name="A")
    b = ps.ZeroDurationTask(name="B")
    ps.TasksDontOverlap(task_1=a, task_2=b)
    ps.TaskStartAt(task=a, value=candidate["A"][0])
    ps.TaskStartAt(task=b, value=candidate["B"][0])
    out = io.StringIO()
    with contextlib.redirect_stdout(out):
        solution = ps.SchedulingSolver(problem=pb).solve()
    if not solution and "no solution exists" in out.getvalue():
        print(f"VIOLATION: {candidate}: two milestones at the same instant "
              "share no time period (overlap length 0) and each one ends "
              "before-or-when the other starts, but pinning them under "
              "TasksDontOverlap gives 'no solution exists'.")
        sys.exit(1)
    sys.exit(0)


if __name__ == "__main__":
    main()
