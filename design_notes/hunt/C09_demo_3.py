"""C09 demo 3 - with SchedulingSolver(logics="QF_UFIDL") (one of the two logics that
docs/solving.md recommends "for best performances"; the same happens with "QF_LIA",
"QF_UFLIA", "QF_UFLRA", "QF_LRA") a NonConcurrentBuffer's reported levels no longer
follow the loads/unloads: the library returns a 'solution' whose level sequence ignores
the quantities, and accepts problems whose bounds / final level cannot be met.

Exit status 1 = property violated (unchanged library), 0 = property holds.
"""
import os, sys, io, contextlib

sys.path.insert(0, "/repo")
import processscheduler as ps

LOGICS = sys.argv[1] if len(sys.argv) > 1 else "QF_UFIDL"


def solve(problem):
    with contextlib.redirect_stdout(io.StringIO()), contextlib.redirect_stderr(io.StringIO()):
        return ps.SchedulingSolver(problem=problem, logics=LOGICS).solve()


def recompute(solution, initial, loads, unloads):
    delta, count = {}, {}
    for name, qty in unloads:
        t = solution.tasks[name]
        delta[t.start] = delta.get(t.start, 0) - qty
        count[t.start] = count.get(t.start, 0) + 1
    for name, qty in loads:
        t = solution.tasks[name]
        delta[t.end] = delta.get(t.end, 0) + qty
        count[t.end] = count.get(t.end, 0) + 1
    times = sorted(delta)
    levels = [initial]
    for t in times:
        levels.append(levels[-1] + delta[t])
    return times, levels, max(count.values())


failures = []

# part A: levels must follow the quantities
pb = ps.SchedulingProblem(name="A", horizon=6)
t1 = ps.FixedDurationTask(name="T1", duration=2)
t2 = ps.FixedDurationTask(name="T2", duration=2)
buf = ps.NonConcurrentBuffer(name="B", initial_level=5, lower_bound=0)
ps.TaskUnloadBuffer(task=t1, buffer=buf, quantity=3)
ps.TaskLoadBuffer(task=t2, buffer=buf, quantity=1)
sol = solve(pb)
if sol:
    times, levels, acc = recompute(sol, 5, [("T2", 1)], [("T1", 3)])
    got = sol.buffers["B"]
    if (got.level_change_times, got.level) != (times, levels) or acc > 1:
        failures.append(
            f"part A (logics={LOGICS}): T1=[{sol.tasks['T1'].start},{sol.tasks['T1'].end}] "
            f"T2=[{sol.tasks['T2'].start},{sol.tasks['T2'].end}]; reported times "
            f"{got.level_change_times} levels {got.level}; loads/unloads give times {times} "
            f"levels {levels}; max simultaneous accesses {acc}"
        )
else:
    failures.append(f"part A (logics={LOGICS}): no solution for a trivially feasible problem")

# part B: unloading 10 out of 5 with lower_bound 0 must be infeasible
pb = ps.SchedulingProblem(name="Bp", horizon=6)
t1 = ps.FixedDurationTask(name="T1", duration=2)
buf = ps.NonConcurrentBuffer(name="B", initial_level=5, lower_bound=0)
ps.TaskUnloadBuffer(task=t1, buffer=buf, quantity=10)
sol = solve(pb)
if sol:
    times, levels, _ = recompute(sol, 5, [], [("T1", 10)])
    if min(levels) < 0:
        failures.append(
            f"part B (logics={LOGICS}): solution returned although the level really goes "
            f"{levels} (< lower_bound 0); library reports {sol.buffers['B'].level}"
        )

if failures:
    print("C09 VIOLATED:")
    for f in failures:
        print(" -", f)
    sys.exit(1)
print("C09 holds on these inputs")
sys.exit(0)
