"""C17 / calendar times + buffers: the real-time tick labels land on the Buffers
axes, the Gantt axes keep bare integers.

docs/scheduling_problem.md ("Mapping integers to datetime objects"): "To enhance the
readability of Gantt charts ... ProcessScheduler allows you to represent time
intervals in real dates and times rather than integers."  So when delta_time and
start_time are given, the time axis under the Gantt bars must show, at the abscissa
of a bar's start, the reported TaskSolution.start_time - whether or not the problem
also has a buffer.
"""
import os, sys, io, contextlib, warnings
sys.path.insert(0, "/repo")
import matplotlib
matplotlib.use("Agg")
import matplotlib.pyplot as plt
from datetime import datetime, timedelta
import processscheduler as ps

warnings.simplefilter("ignore")


def build(with_buffer):
    pb = ps.SchedulingProblem(
        name="cal",
        horizon=6,
        delta_time=timedelta(minutes=15),
        start_time=datetime(2024, 1, 1, 8, 0),
    )
    t1 = ps.FixedDurationTask(name="t1", duration=2)
    t2 = ps.FixedDurationTask(name="t2", duration=2)
    w = ps.Worker(name="w")
    t1.add_required_resource(w)
    t2.add_required_resource(w)
    if with_buffer:
        buf = ps.NonConcurrentBuffer(name="Buf", initial_level=5)
        ps.TaskUnloadBuffer(task=t1, buffer=buf, quantity=2)
        ps.TaskLoadBuffer(task=t2, buffer=buf, quantity=3)
    with contextlib.redirect_stdout(io.StringIO()):
        sol = ps.SchedulingSolver(problem=pb).solve()
    assert sol, "no solution"
    return sol


def gantt_tick_label_at(ax, x):
    for pos, lab in zip(ax.get_xticks(), ax.get_xticklabels()):
        if abs(pos - x) < 1e-9:
            return lab.get_text()
    return None


def check(sol, mode):
    """return a list of complaints for the Gantt axes of this rendering"""
    plt.close("all")
    ps.render_gantt_matplotlib(sol, show_plot=False, render_mode=mode)
    fig = plt.gcf()
    fig.canvas.draw()
    gantt = [a for a in fig.axes if "schedule" in a.get_title()][0]
    out = []
    for name, t in sol.tasks.items():
        if not t.scheduled:
            continue
        for x, when in ((t.start, t.start_time), (t.end, t.end_time)):
            lab = gantt_tick_label_at(gantt, x)
            # the label must carry the reported calendar time of that instant
            wanted = when.strftime("%H:%M")
            if lab is None or wanted not in lab:
                out.append(
                    f"[{mode}] Gantt axis label at x={x} is {lab!r}, "
                    f"but {name} is reported there at {when} (expected to read {wanted})"
                )
    return out


failures = []
for with_buffer in (False, True):
    sol = build(with_buffer)
    for mode in ("Resource", "Task"):
        for msg in check(sol, mode):
            failures.append(("with buffer: " if with_buffer else "no buffer: ") + msg)

if failures:
    print("VIOLATION: calendar time axis is not drawn on the Gantt chart")
    print("\n".join(failures))
    sys.exit(1)
print("ok")
sys.exit(0)
