"""C19 demo 4 - a task name containing a "[/...]" sequence (legal: names are free strings).

With debug=False the feasible problem is solved and a valid schedule is returned.  With
debug=True the same solve() raises rich.errors.MarkupError from SchedulingSolver.print_solution
(the z3 variable names, which embed the task name, are sent through rich's markup-aware print),
so no verdict / schedule is returned: debug mode changed the outcome.
(The library uses `from rich import print` whenever rich is importable; it is installed here.)

Exit status 1 = property violated, 0 = property holds.
"""
import contextlib
import io
import os
import sys

sys.path.insert(0, "/repo")
import processscheduler as ps

NAME = "weld [/dev/ttyS0]"
DURATION = 3
HORIZON = 10


@contextlib.contextmanager
def quiet():
    buf = io.StringIO()
    saved = os.dup(2)
    devnull = os.open(os.devnull, os.O_WRONLY)
    os.dup2(devnull, 2)
    try:
        with contextlib.redirect_stdout(buf):
            yield buf
    finally:
        os.dup2(saved, 2)
        os.close(saved)
        os.close(devnull)


def attempt(debug):
    with quiet():
        pb = ps.SchedulingProblem(name="MarkupName", horizon=HORIZON)
        ps.FixedDurationTask(name=NAME, duration=DURATION)
        solver = ps.SchedulingSolver(problem=pb, debug=debug)
        try:
            return solver.solve(), None
        except Exception as exc:  # noqa
            return None, exc


def valid(solution):
    t = solution.tasks[NAME]
    return t.start >= 0 and t.end - t.start == DURATION and t.end <= HORIZON


def main():
    sol0, exc0 = attempt(debug=False)
    sol1, exc1 = attempt(debug=True)
    print("debug=False:", "schedule" if sol0 else sol0, "| exception:", repr(exc0))
    print("debug=True :", "schedule" if sol1 else sol1, "| exception:", repr(exc1))
    if exc0 is not None or not sol0 or not valid(sol0):
        print("unexpected: the non-debug run did not return a valid schedule")
        return 2
    if exc1 is not None:
        print(
            "VIOLATION: the problem is feasible and debug=False returns a valid schedule, "
            f"but debug=True raises {type(exc1).__name__}: {exc1}"
        )
        return 1
    if bool(sol1) != bool(sol0):
        print("VIOLATION: debug mode changed the verdict")
        return 1
    if not valid(sol1):
        print("VIOLATION: the schedule returned in debug mode is not valid")
        return 1
    print("OK: same verdict and a valid schedule in debug mode")
    return 0


if __name__ == "__main__":
    sys.exit(main())
