"""TaskPrecedence kind="tight" with a task group on one side: the returned schedule
leaves a gap between the completion of the group and the start of the task
(resp. between the end of the task and the start of the group).

Exits 1 when start(after) != end(before) + offset, where the end (start) of a group
is recomputed as the latest end (earliest start) of its tasks."""
import contextlib
import io
import os
import sys

sys.path.insert(0, "/repo")
import processscheduler as ps


def quiet(func, *args, **kwargs):
    with contextlib.redirect_stdout(io.StringIO()), contextlib.redirect_stderr(io.StringIO()):
        return func(*args, **kwargs)


failures = []

# case 1: group before task, tight, offset 1
pb = ps.SchedulingProblem(name="demo4_group_before", horizon=40)
x = ps.FixedDurationTask(name="X", duration=5)
y = ps.FixedDurationTask(name="Y", duration=3)
z = ps.FixedDurationTask(name="Z", duration=2)
group = ps.UnorderedTaskGroup(list_of_tasks=[x, y])
ps.TaskPrecedence(task_before=group, task_after=z, kind="tight", offset=1)
ps.TaskStartAt(task=x, value=0)
ps.TaskStartAt(task=y, value=2)
ps.TaskStartAt(task=z, value=20)
solution = quiet(quiet(ps.SchedulingSolver, problem=pb).solve)
if solution:
    group_end = max(solution.tasks[n].end for n in ("X", "Y"))
    z_start = solution.tasks["Z"].start
    ok = z_start == group_end + 1
    print(f"case 1: group completes at {group_end}, offset 1, Z starts at {z_start}:", "ok" if ok else "VIOLATION (tight requires %d)" % (group_end + 1))
    if not ok:
        failures.append(("case1", group_end, z_start))
else:
    print("case 1: no schedule returned (correct: Z pinned at 20 cannot be tight after a group ending at 5)")

# case 2: task before group, tight, offset 0
pb = ps.SchedulingProblem(name="demo4_group_after", horizon=40)
x = ps.FixedDurationTask(name="X", duration=5)
y = ps.FixedDurationTask(name="Y", duration=3)
z = ps.FixedDurationTask(name="Z", duration=2)
group = ps.OrderedTaskGroup(list_of_tasks=[x, y], kind="tight")
ps.TaskPrecedence(task_before=z, task_after=group, kind="tight")
ps.TaskStartAt(task=z, value=0)
ps.TaskStartAt(task=x, value=20)
solution = quiet(quiet(ps.SchedulingSolver, problem=pb).solve)
if solution:
    group_start = min(solution.tasks[n].start for n in ("X", "Y"))
    z_end = solution.tasks["Z"].end
    ok = group_start == z_end
    print(f"case 2: Z ends at {z_end}, group starts at {group_start}:", "ok" if ok else "VIOLATION (tight requires %d)" % z_end)
    if not ok:
        failures.append(("case2", z_end, group_start))
else:
    print("case 2: no schedule returned (correct)")

if failures:
    print("PROPERTY VIOLATED:", failures)
    sys.exit(1)
print("property holds")
sys.exit(0)
