"""C19 demo 1 - the infeasibility diagnosis never names TaskLoadBuffer / TaskUnloadBuffer
constraints, so the constraints it lists do not conflict on their own.

Exit status 1 = property violated (behaviour of the unchanged library), 0 = property holds.
"""
import contextlib
import io
import os
import re
import sys

sys.path.insert(0, "/repo")
import processscheduler as ps


def build(keep=None):
    """The problem. `keep` = set of constraint names to declare (None = all of them)."""

    def k(name):
        return keep is None or name in keep

    pb = ps.SchedulingProblem(name="BufferDiag", horizon=10)
    producer = ps.FixedDurationTask(name="producer", duration=2)
    consumer = ps.FixedDurationTask(name="consumer", duration=2)
    other = ps.FixedDurationTask(name="other", duration=2)
    # an empty stock that may never be negative
    stock = ps.NonConcurrentBuffer(name="stock", initial_level=0, lower_bound=0)
    declared = []
    if k("load"):  # producer puts one item into the stock when it ends
        ps.TaskLoadBuffer(name="load", task=producer, buffer=stock, quantity=1)
    if k("unload"):  # consumer takes one item from the stock when it starts
        ps.TaskUnloadBuffer(name="unload", task=consumer, buffer=stock, quantity=1)
    if k("consumer_first"):  # ... but the consumer is forced to run before the producer
        ps.TaskPrecedence(name="consumer_first", task_before=consumer, task_after=producer)
    if k("irrelevant"):
        ps.TaskStartAt(name="irrelevant", task=other, value=4)
    return pb


def solve(pb, debug):
    """solve; capture python-level prints, drop z3's C-level verbose output (fd 2)"""
    buf = io.StringIO()
    saved = os.dup(2)
    devnull = os.open(os.devnull, os.O_WRONLY)
    os.dup2(devnull, 2)
    try:
        with contextlib.redirect_stdout(buf):
            solution = ps.SchedulingSolver(problem=pb, debug=debug).solve()
    finally:
        os.dup2(saved, 2)
        os.close(saved)
        os.close(devnull)
    return solution, buf.getvalue()


def listed_constraints(output):
    """names of the constraints printed after 'Unsatisfied constraints - conflict between ...'"""
    if "Unsatisfied constraints" not in output:
        return None
    tail = output.split("Unsatisfied constraints", 1)[1]
    names = []
    for block in tail.split(" -> ")[1:]:
        m = re.search(r"name='([^']*)'", block)
        names.append(m.group(1) if m else block.strip()[:40])
    return names


def main():
    all_names = {"load", "unload", "consumer_first", "irrelevant"}

    # sanity: the full problem is infeasible, and both the user-declared constraints
    # 'unload' and 'consumer_first' are necessary for the conflict (dropping either one
    # makes the problem feasible)
    full, _ = solve(build(), debug=False)
    assert not full, "the full problem is expected to be infeasible"
    for dropped in ("unload", "consumer_first"):
        sol, _ = solve(build(all_names - {dropped}), debug=False)
        assert sol, f"dropping {dropped} should make the problem feasible"

    solution, out = solve(build(), debug=True)
    if solution:
        print("VIOLATION: debug mode changed the verdict (a schedule was returned)")
        return 1
    listed = listed_constraints(out)
    print("debug diagnosis lists:", listed)
    if listed is None:
        print("VIOLATION: no diagnosis printed at all")
        return 1

    bad = [n for n in listed if n not in all_names]
    if bad:
        print("VIOLATION: listed names that are not constraints of the problem:", bad)
        return 1

    # the listed constraints + the basic task/resource/buffer rules must admit no schedule:
    # rebuild the same tasks/buffer with ONLY the listed constraints and solve it
    sol, _ = solve(build(set(listed)), debug=False)
    if sol:
        sched = {n: (t.start, t.end) for n, t in sol.tasks.items()}
        print(
            "VIOLATION: the constraints listed as conflicting",
            listed,
            "together with the basic task/buffer rules DO admit a schedule:",
            sched,
            "- the buffer constraints 'load'/'unload' that really take part in the "
            "conflict are never named.",
        )
        return 1
    print("OK: the listed constraints are really contradictory")
    return 0


if __name__ == "__main__":
    sys.exit(main())
