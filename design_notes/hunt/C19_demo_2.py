"""C19 demo 2 - debug mode changes the outcome of a feasible problem when the z3 Optimize
solver is used (optimizer="optimize"): with debug=False a valid optimal schedule is returned,
with debug=True the interpreter is killed (segmentation fault inside z3's Optimize.check(),
which the library feeds with assert_and_track() only in debug mode).

Because the failure kills the process, every solve is run in a child process (this same file
with an argument).  Exit status 1 = property violated, 0 = property holds.
"""
import contextlib
import io
import json
import os
import subprocess
import sys

sys.path.insert(0, "/repo")

DURATION = {"maybe": 2, "must": 3}
DUE = {"must": 3}


def child(debug):
    import processscheduler as ps

    devnull = os.open(os.devnull, os.O_WRONLY)
    os.dup2(devnull, 2)  # z3's verbose output of debug mode goes to the C-level stderr
    buf = io.StringIO()
    with contextlib.redirect_stdout(buf):
        pb = ps.SchedulingProblem(name="OptimizeDebug")
        ps.FixedDurationTask(name="maybe", duration=DURATION["maybe"], optional=True)
        ps.FixedDurationTask(name="must", duration=DURATION["must"], due_date=DUE["must"])
        ps.ObjectiveMinimizeMakespan()
        solver = ps.SchedulingSolver(problem=pb, debug=debug, optimizer="optimize")
        solution = solver.solve()
    if not solution:
        print("RESULT " + json.dumps({"verdict": False}))
    else:
        print(
            "RESULT "
            + json.dumps(
                {
                    "verdict": True,
                    "horizon": solution.horizon,
                    "tasks": {
                        n: [t.start, t.end, t.scheduled]
                        for n, t in solution.tasks.items()
                    },
                }
            )
        )


def run_child(debug):
    proc = subprocess.run(
        [sys.executable, os.path.abspath(__file__), "child", "1" if debug else "0"],
        capture_output=True,
        text=True,
        cwd="/repo",
    )
    for line in proc.stdout.splitlines():
        if line.startswith("RESULT "):
            return proc.returncode, json.loads(line[len("RESULT "):])
    return proc.returncode, None


def schedule_problems(res):
    """independent check of a returned schedule against the documented meaning"""
    errors = []
    ends = []
    for name, (start, end, scheduled) in res["tasks"].items():
        if name == "must" and not scheduled:
            errors.append("mandatory task not scheduled")
        if not scheduled:
            continue
        if start < 0 or end - start != DURATION[name]:
            errors.append(f"{name}: bad start/end {start},{end}")
        if name in DUE and end > DUE[name]:
            errors.append(f"{name}: ends after its deadline")
        ends.append(end)
    # minimal makespan: the mandatory task needs [0,3]; nothing forces anything later
    if res["horizon"] != max(ends) or res["horizon"] != DURATION["must"]:
        errors.append(f"makespan {res['horizon']} is not the minimum {DURATION['must']}")
    return errors


def main():
    rc0, res0 = run_child(debug=False)
    # the debug run is repeated a few times: the tracking labels are random (uuid), so
    # the exact formula handed to z3 differs from run to run
    for _ in range(3):
        rc1, res1 = run_child(debug=True)
        if res1 is None:
            break
    print("debug=False: return code", rc0, "result", res0)
    print("debug=True : return code", rc1, "result", res1)
    if res0 is None or not res0["verdict"] or schedule_problems(res0):
        print("unexpected: the non-debug run did not give a valid schedule", res0)
        return 2
    if res1 is None:
        print(
            "VIOLATION: the problem is feasible and debug=False returns a valid optimal "
            f"schedule, but with debug=True the solve never returns: the process died with "
            f"return code {rc1} (negative = killed by that signal; -11 is SIGSEGV)."
        )
        return 1
    if res1["verdict"] != res0["verdict"]:
        print("VIOLATION: debug mode changed the verdict", res0["verdict"], "->", res1["verdict"])
        return 1
    errs = schedule_problems(res1)
    if errs:
        print("VIOLATION: the schedule returned in debug mode is not valid:", errs)
        return 1
    print("OK: same verdict and a valid schedule in debug mode")
    return 0


if __name__ == "__main__":
    if len(sys.argv) > 2 and sys.argv[1] == "child":
        child(sys.argv[2] == "1")
    else:
        sys.exit(main())
