"""C18 / clause "an optional-task rule applied to a mandatory task".

docs/task_constraints.md: "`OptionalTasksDependency` takes two optional tasks
`task_1` and `task_2` ...".  Every optional-task rule must therefore refuse a
mandatory task, whatever the argument slot the mandatory task is passed in.
"""
import os, sys, io, contextlib

sys.path.insert(0, "/repo")
import z3
import processscheduler as ps


def build():
    problem = ps.SchedulingProblem(name="demo1", horizon=10)
    mandatory = ps.FixedDurationTask(name="mandatory", duration=2)  # optional=False
    optional = ps.FixedDurationTask(name="optional", duration=2, optional=True)
    return problem, mandatory, optional


# every (rule, slot) pair in which a MANDATORY task is handed to an optional-task rule
CASES = {
    "OptionalTaskConditionSchedule(task=M)": lambda m, o: ps.OptionalTaskConditionSchedule(
        task=m, condition=z3.Bool("c")
    ),
    "OptionalTaskForceSchedule(task=M)": lambda m, o: ps.OptionalTaskForceSchedule(
        task=m, to_be_scheduled=True
    ),
    "ForceScheduleNOptionalTasks([O, M])": lambda m, o: ps.ForceScheduleNOptionalTasks(
        list_of_optional_tasks=[o, m]
    ),
    "OptionalTasksDependency(task_1=O, task_2=M)": lambda m, o: ps.OptionalTasksDependency(
        task_1=o, task_2=m
    ),
    "OptionalTasksDependency(task_1=M, task_2=O)": lambda m, o: ps.OptionalTasksDependency(
        task_1=m, task_2=o
    ),
}

violations = []
for label, make in CASES.items():
    pb, m, o = build()
    # the premise is decided from the model itself, not hard-coded
    assert m.optional is False and o.optional is True
    try:
        make(m, o)
    except Exception as exc:  # rejected at creation: what the property requires
        print(f"rejected  {label}: {type(exc).__name__}")
    else:
        print(f"ACCEPTED  {label}")
        violations.append(label)

if violations:
    # show that the silently accepted rule is not harmless
    pb, m, o = build()
    ps.OptionalTasksDependency(task_1=m, task_2=o)
    ps.TaskEndBefore(task=m, value=2)  # M occupies [0,2]
    ps.TasksDontOverlap(task_1=m, task_2=o)
    ps.TaskEndBefore(task=o, value=3)  # O, if scheduled, cannot fit any more
    with contextlib.redirect_stdout(io.StringIO()):
        sol = ps.SchedulingSolver(problem=pb).solve()
    print("solution with the accepted rule:", "none (unsat)" if not sol else "found")
    print(
        "VIOLATION: an optional-task rule was accepted for a mandatory task: "
        + "; ".join(violations)
    )
    sys.exit(1)
print("ok: every optional-task rule refuses a mandatory task")
sys.exit(0)
