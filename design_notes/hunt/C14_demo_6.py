"""C14 demo 6 - buffers: the verdict depends on the declaration order of two optional
tasks that are NOT scheduled, because an unscheduled task still moves the buffer level
at its "parking" instant (-1 for the task declared first, -2 for the second, ...).

Problem (identical in both runs but for the order of the two task declarations):
  horizon 10, optional tasks U and L (duration 2),
  NonConcurrentBuffer(initial_level=0, lower_bound=0),
  TaskUnloadBuffer(U, quantity=1), TaskLoadBuffer(L, quantity=1),
  OptionalTaskForceSchedule(U, False), OptionalTaskForceSchedule(L, False)
Documented meaning: a task that is not scheduled is not part of the schedule
(docs/task.md "An optional task may or may not be scheduled"), so the buffer stays at
its initial level 0 >= lower_bound: feasible, in either declaration order.

Exit status 1 = property violated, 0 = fine.
"""
import contextlib
import io
import os
import sys

sys.path.insert(0, "/repo")
import processscheduler as ps  # noqa: E402

INITIAL_LEVEL = 0
LOWER_BOUND = 0


def library_verdict(declaration_order):
    pb = ps.SchedulingProblem(name="BufferOrderDemo", horizon=10)
    tasks = {}
    for name in declaration_order:
        tasks[name] = ps.FixedDurationTask(name=name, duration=2, optional=True)
    buffer = ps.NonConcurrentBuffer(
        name="Buf", initial_level=INITIAL_LEVEL, lower_bound=LOWER_BOUND
    )
    ps.TaskUnloadBuffer(task=tasks["U"], buffer=buffer, quantity=1)
    ps.TaskLoadBuffer(task=tasks["L"], buffer=buffer, quantity=1)
    ps.OptionalTaskForceSchedule(task=tasks["U"], to_be_scheduled=False)
    ps.OptionalTaskForceSchedule(task=tasks["L"], to_be_scheduled=False)
    solver = ps.SchedulingSolver(problem=pb)
    with contextlib.redirect_stdout(io.StringIO()):
        solution = solver.solve()
    return bool(solution)


def reference_verdict():
    """No task is scheduled: the level history is the initial level alone."""
    levels = [INITIAL_LEVEL]
    return all(level >= LOWER_BOUND for level in levels)


def main():
    expected = reference_verdict()
    v1 = library_verdict(["U", "L"])
    v2 = library_verdict(["L", "U"])
    print(f"reference verdict: feasible={expected}")
    print(f"declared U then L: feasible={v1}")
    print(f"declared L then U: feasible={v2}")
    failed = False
    if v1 != v2:
        print("VIOLATION: permuting the declaration order of two tasks changes the verdict")
        failed = True
    if v1 != expected or v2 != expected:
        print("VIOLATION: a verdict differs from the documented meaning")
        failed = True
    return 1 if failed else 0


if __name__ == "__main__":
    sys.exit(main())
