"""C16 / SMT-LIB export denotes the constraint system the solver checks.

With debug=True every assertion is added with assert_and_track.  The exported
file then contains each constraint only as `(=> asst_xxxx constraint)` with the
tracking literal asst_xxxx left free, so the file is satisfiable whatever the
problem is and its models are not schedules.
"""
import contextlib
import io
import os
import sys
import tempfile

sys.path.insert(0, "/repo")
import z3
import processscheduler as ps


def quiet(func, *args, **kwargs):
    with contextlib.redirect_stdout(io.StringIO()), contextlib.redirect_stderr(
        io.StringIO()
    ):
        return func(*args, **kwargs)


def build(horizon):
    """two tasks of duration 3 on one worker: needs horizon >= 6"""
    problem = ps.SchedulingProblem(name=f"Smt{horizon}", horizon=horizon)
    t1 = ps.FixedDurationTask(name="T1", duration=3)
    t2 = ps.FixedDurationTask(name="T2", duration=3)
    worker = ps.Worker(name="W")
    t1.add_required_resource(worker)
    t2.add_required_resource(worker)
    return problem


def is_valid_schedule(model, horizon):
    """independent check of a model of the exported file"""

    def val(name):
        return model.eval(z3.Int(name), model_completion=True).as_long()

    s1, e1, s2, e2 = val("T1_start"), val("T1_end"), val("T2_start"), val("T2_end")
    ok = e1 - s1 == 3 and e2 - s2 == 3
    ok = ok and s1 >= 0 and s2 >= 0 and e1 <= horizon and e2 <= horizon
    ok = ok and (s2 >= e1 or s1 >= e2)
    return ok, (s1, e1, s2, e2)


failures = []
tmpdir = tempfile.mkdtemp()
for optimizer in ("incremental", "optimize"):
    for horizon in (4, 6):  # 4: unsatisfiable, 6: satisfiable
        problem = build(horizon)
        if optimizer == "optimize":
            ps.ObjectiveMinimizeMakespan()
        solver = ps.SchedulingSolver(problem=problem, debug=True, optimizer=optimizer)
        filename = os.path.join(tmpdir, f"{optimizer}_{horizon}.smt2")
        quiet(solver.export_to_smt2, filename)
        solution = quiet(solver.solve)
        problem_is_sat = bool(solution)
        expected_sat = horizon >= 6  # by hand: 3 + 3 on one worker
        assert problem_is_sat == expected_sat

        checker = z3.Solver()
        checker.from_file(filename)
        file_result = checker.check()
        file_is_sat = file_result == z3.sat
        if file_is_sat != problem_is_sat:
            failures.append(
                f"[{optimizer}, horizon={horizon}] solver says "
                f"{'sat' if problem_is_sat else 'unsat'} but the exported SMT-LIB file is {file_result}"
            )
        if file_is_sat:
            # ask the exported system for a model that is NOT a schedule
            bad = z3.Solver()
            bad.from_file(filename)
            bad.add(z3.Int("T1_end") - z3.Int("T1_start") != 3)
            if bad.check() == z3.sat:
                ok, values = is_valid_schedule(bad.model(), horizon)
                if not ok:
                    failures.append(
                        f"[{optimizer}, horizon={horizon}] exported file has a model that is not a "
                        f"valid schedule: (T1_start, T1_end, T2_start, T2_end)={values}"
                    )
z3.set_option("verbose", 0)
if failures:
    print("VIOLATION: SMT-LIB export in debug mode is not the checked constraint system")
    for failure in failures:
        print("  -", failure)
    sys.exit(1)
print("ok")
sys.exit(0)
