"""C06 demo 2 - periodic unavailability / interruption of a worker is applied to the
"parking" instant of an optional task that is not scheduled.

Property clause: a task reported as not scheduled "occupies no worker ... and triggers no
constraint"; "rules that force, forbid ... the scheduling of optional tasks are honoured";
the remaining tasks have exactly the schedules of the problem with the task deleted.

Worker W is off every week-end: ResourcePeriodicallyUnavailable([(5, 7)], period=7).
T is an optional task on W that the user forbids (OptionalTaskForceSchedule False).
A is a mandatory task on W.  Deleting T leaves an obviously feasible problem.

Exit status 1 when the property is violated, 0 otherwise.
"""
import contextlib
import io
import os
import sys

sys.path.insert(0, "/repo")
import processscheduler as ps  # noqa: E402


def solve(problem):
    with contextlib.redirect_stdout(io.StringIO()):
        return ps.SchedulingSolver(problem=problem).solve()


def build(constraint_class, task_class, with_optional_task):
    pb = ps.SchedulingProblem(name="weekend", horizon=30)
    w = ps.Worker(name="W")
    if with_optional_task:
        # T is the first task created
        if task_class is ps.VariableDurationTask:
            t = ps.VariableDurationTask(name="T", min_duration=2, optional=True)
        else:
            t = ps.FixedDurationTask(name="T", duration=2, optional=True)
        t.add_required_resource(w)
        ps.OptionalTaskForceSchedule(task=t, to_be_scheduled=False)
    a = ps.FixedDurationTask(name="A", duration=3)
    a.add_required_resource(w)
    constraint_class(resource=w, list_of_time_intervals=[(5, 7)], period=7)
    return pb


def a_is_legal(sol):
    """independent check of A: 3 periods, inside [0, 30], never on days 5 and 6 of a week"""
    a = sol.tasks["A"]
    if a.end - a.start != 3 or a.start < 0 or a.end > 30:
        return False
    return all((p % 7) not in (5, 6) for p in range(a.start, a.end))


failures = []
for constraint_class in (ps.ResourcePeriodicallyUnavailable, ps.ResourcePeriodicallyInterrupted):
    for task_class in (ps.FixedDurationTask, ps.VariableDurationTask):
        label = f"{constraint_class.__name__} / optional {task_class.__name__}"
        reduced = solve(build(constraint_class, task_class, False))
        if not reduced or not a_is_legal(reduced):
            print("unexpected: reduced problem not solved for", label)
            continue
        full = solve(build(constraint_class, task_class, True))
        if not full:
            failures.append(
                f"{label}: the problem without T has a solution (A at {reduced.tasks['A'].start}), but with the "
                "optional task T present and forbidden the library reports NO solution"
            )
            continue
        if full.tasks["T"].scheduled:
            failures.append(f"{label}: T is scheduled although OptionalTaskForceSchedule(False)")
        if full.tasks["T"].assigned_resources:
            failures.append(f"{label}: unscheduled T holds {full.tasks['T'].assigned_resources}")
        if not a_is_legal(full):
            failures.append(f"{label}: A is illegally scheduled")

if failures:
    print("C06 VIOLATED (periodic worker calendars):")
    for f in failures:
        print(" -", f)
    sys.exit(1)
print("ok: a forbidden optional task is inert for the periodic calendars of its worker")
sys.exit(0)
