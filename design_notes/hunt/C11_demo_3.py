"""C11 demo 3 - a resource is reported under a name that is not its own because the
solution builder recognises cumulative workers by the substring "_CumulativeWorker_".

A plain Worker whose (legal, unique) name contains that separator is reported under the
text before the separator; nothing in the solution bears the worker's real name.

Property: resources (cumulative workers in particular) are reported under their own
name; task <-> resource cross references must designate resources of the problem.
"""
import contextlib
import io
import os
import sys

sys.path.insert(0, "/repo")
import processscheduler as ps

WORKER_NAME = "Press_CumulativeWorker_Old"

with contextlib.redirect_stdout(io.StringIO()):
    pb = ps.SchedulingProblem(name="demo3", horizon=5)
    t = ps.FixedDurationTask(name="T", duration=3)
    press = ps.Worker(name=WORKER_NAME)
    t.add_required_resource(press)
    solution = ps.SchedulingSolver(problem=pb).solve()

if not solution:
    print("no solution returned, nothing to check")
    sys.exit(0)

declared = {WORKER_NAME}  # every resource declared in the problem
errors = []
reported = set(solution.resources)
if reported != declared:
    errors.append(f"declared resources {sorted(declared)} but the solution reports {sorted(reported)}")
for r_name, r_sol in solution.resources.items():
    if r_sol.name != r_name:
        errors.append(f"resource stored under key {r_name!r} is named {r_sol.name!r}")
t_sol = solution.tasks["T"]
unknown = [r for r in t_sol.assigned_resources if r not in declared]
if unknown:
    errors.append(f"task T lists resources {unknown} that do not exist in the problem")
if WORKER_NAME not in t_sol.assigned_resources:
    errors.append(f"task T requires {WORKER_NAME!r} but lists {t_sol.assigned_resources}")

if errors:
    print("C11 VIOLATED:")
    for e in errors:
        print("  -", e)
    sys.exit(1)
print("ok")
sys.exit(0)
