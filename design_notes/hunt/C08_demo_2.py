"""C08 / utilisation and number of tasks assigned, for a CumulativeWorker.

IndicatorResourceUtilization.resource and IndicatorNumberTasksAssigned.resource
are typed Union[Worker, CumulativeWorker], but a CumulativeWorker never owns
busy intervals (they live on its hidden sub-workers), so both indicators are
constant 0.
"""
import contextlib, io, os, sys
sys.path.insert(0, "/repo")
import processscheduler as ps

HORIZON, SIZE = 10, 2
pb = ps.SchedulingProblem(name="cumul", horizon=HORIZON)
t1 = ps.FixedDurationTask(name="t1", duration=5)
t2 = ps.FixedDurationTask(name="t2", duration=3)
cw = ps.CumulativeWorker(name="CW", size=SIZE)
t1.add_required_resource(cw)
t2.add_required_resource(cw)
util = ps.IndicatorResourceUtilization(resource=cw)
nb = ps.IndicatorNumberTasksAssigned(resource=cw)

with contextlib.redirect_stdout(io.StringIO()):
    sol = ps.SchedulingSolver(problem=pb).solve()
if not sol:
    print("no solution"); sys.exit(1)

assignments = sol.resources["CW"].assignments  # [(task, start, end), ...]
print("reported assignments of CW:", assignments)
print("reported indicators:", sol.indicators)

# independent evaluation on the reported schedule
busy_points = set()
for _, s, e in assignments:
    busy_points.update(range(s, e))
pct_union = 100 * len(busy_points) / HORIZON                       # share of the horizon CW is busy
pct_capacity = 100 * sum(e - s for _, s, e in assignments) / (SIZE * HORIZON)  # share of capacity used
nb_expected = len({name for name, _, _ in assignments})

bad = False
rep_util = sol.indicators[util.name]
if min(abs(rep_util - pct_union), abs(rep_util - pct_capacity)) > 1:
    print(f"VIOLATION: utilisation reported {rep_util}%, but CW is busy {pct_union}% of the horizon "
          f"({pct_capacity}% of its capacity)")
    bad = True
rep_nb = sol.indicators[nb.name]
if rep_nb != nb_expected:
    print(f"VIOLATION: number of tasks assigned reported {rep_nb}, the schedule assigns {nb_expected}")
    bad = True
sys.exit(1 if bad else 0)
