"""C06 demo 1 - an optional task that is NOT scheduled still loads/unloads its buffer.

Property clause: a task reported as not scheduled "changes no buffer"; the schedules of
the other tasks are those of the same problem with the unscheduled task deleted.

Exit status 1 (and an explanation) when the property is violated, 0 otherwise.
"""
import contextlib
import io
import os
import sys

sys.path.insert(0, "/repo")
import processscheduler as ps  # noqa: E402


def solve(problem):
    with contextlib.redirect_stdout(io.StringIO()):
        return ps.SchedulingSolver(problem=problem).solve()


def build(buffer_class, with_optional_task, lower_bound=None, initial=10):
    """A (mandatory) unloads 3.  T (optional, forbidden by OptionalTaskForceSchedule)
    would load 4 and U (optional, forbidden) would unload 5."""
    pb = ps.SchedulingProblem(name=f"buf_{buffer_class.__name__}", horizon=20)
    a = ps.FixedDurationTask(name="A", duration=2)
    moves = {"A": ("unload", 3)}
    kw = {"name": "Store", "initial_level": initial}
    if lower_bound is not None:
        kw["lower_bound"] = lower_bound
    buf = buffer_class(**kw)
    ps.TaskUnloadBuffer(task=a, buffer=buf, quantity=3)
    if with_optional_task:
        t = ps.FixedDurationTask(name="T", duration=2, optional=True)
        u = ps.FixedDurationTask(name="U", duration=2, optional=True)
        ps.TaskLoadBuffer(task=t, buffer=buf, quantity=4)
        ps.TaskUnloadBuffer(task=u, buffer=buf, quantity=5)
        moves["T"] = ("load", 4)
        moves["U"] = ("unload", 5)
        ps.OptionalTaskForceSchedule(task=t, to_be_scheduled=False)
        ps.OptionalTaskForceSchedule(task=u, to_be_scheduled=False)
    return pb, moves


def expected_profile(solution, moves, initial):
    """Recompute the buffer profile from the documented meaning: a buffer is unloaded at
    the start of a *scheduled* unloading task and loaded at the end of a *scheduled*
    loading task; tasks that are not scheduled do nothing."""
    events = {}
    for name, (kind, qty) in moves.items():
        ts = solution.tasks[name]
        if not ts.scheduled:
            continue
        when = ts.start if kind == "unload" else ts.end
        events[when] = events.get(when, 0) + (qty if kind == "load" else -qty)
    levels, times, level = [initial], [], initial
    for when in sorted(events):
        level += events[when]
        levels.append(level)
        times.append(when)
    return levels, times


failures = []

for buffer_class in (ps.NonConcurrentBuffer, ps.ConcurrentBuffer):
    pb, moves = build(buffer_class, with_optional_task=True)
    sol = solve(pb)
    if not sol:
        failures.append(f"{buffer_class.__name__}: no solution at all")
        continue
    not_scheduled = [n for n, t in sol.tasks.items() if not t.scheduled]
    exp_levels, exp_times = expected_profile(sol, moves, 10)
    got = sol.buffers["Store"]
    if got.level != exp_levels or got.level_change_times != exp_times:
        failures.append(
            f"{buffer_class.__name__}: tasks {not_scheduled} are reported NOT scheduled, so the buffer "
            f"must go {exp_levels} at times {exp_times}; the library reports levels {got.level} "
            f"at times {got.level_change_times} (the unscheduled tasks moved the buffer, at negative times)"
        )

# second symptom: the phantom unloading makes a feasible problem infeasible.
# initial level 3, lower bound 0: A takes 3 (fine).  U would take 5 more, so U must be
# skipped - which is what the rule asks for anyway.  With U and T deleted the problem is feasible.
pb_reduced, _ = build(ps.NonConcurrentBuffer, with_optional_task=False, lower_bound=0, initial=3)
pb_full, _ = build(ps.NonConcurrentBuffer, with_optional_task=True, lower_bound=0, initial=3)
reduced_ok = bool(solve(pb_reduced))
full_ok = bool(solve(pb_full))
if reduced_ok and not full_ok:
    failures.append(
        "lower_bound=0, initial_level=3: the problem without T and U is feasible, but with T and U present "
        "and forbidden (not scheduled) the library finds no solution: the unscheduled unloading task still "
        "takes its 5 units and breaks the lower bound"
    )

if failures:
    print("C06 VIOLATED (buffers):")
    for f in failures:
        print(" -", f)
    sys.exit(1)
print("ok: unscheduled optional tasks leave the buffer untouched")
sys.exit(0)
