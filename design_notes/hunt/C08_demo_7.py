"""C08 / utilisation and number of tasks with an unscheduled optional task + delay_in.

With add_required_resource(w, delay_in=k) the busy interval is
(task.start + k, task.end).  When the optional task is not scheduled it sits at
start = end = -(task number), so the interval becomes (k - n, -n): negative
length, start > -1.  Utilisation goes negative and the task is counted as
assigned although the solution lists no assignment.
"""
import contextlib, io, os, sys
sys.path.insert(0, "/repo")
import processscheduler as ps

HORIZON = 10
pb = ps.SchedulingProblem(name="delayopt", horizon=HORIZON)
# cannot fit in the horizon: has to stay unscheduled
a = ps.FixedDurationTask(name="a", duration=20, optional=True)
w = ps.Worker(name="w")
a.add_required_resource(w, delay_in=3)
util = ps.IndicatorResourceUtilization(resource=w)
nb = ps.IndicatorNumberTasksAssigned(resource=w)

with contextlib.redirect_stdout(io.StringIO()):
    sol = ps.SchedulingSolver(problem=pb).solve()
if not sol:
    print("no solution"); sys.exit(1)

assignments = sol.resources["w"].assignments
print(f"task a scheduled={sol.tasks['a'].scheduled}; assignments of w: {assignments}")
exp_util = 100 * sum(e - s for _, s, e in assignments) // HORIZON
exp_nb = len(assignments)
bad = False
for ind, exp in ((util, exp_util), (nb, exp_nb)):
    rep = sol.indicators[ind.name]
    ok = abs(rep - exp) <= (1 if ind is util else 0)
    print(f"{ind.name}: reported {rep}, recomputed on the reported schedule {exp}{'' if ok else '   <-- VIOLATION'}")
    bad = bad or not ok
sys.exit(1 if bad else 0)
