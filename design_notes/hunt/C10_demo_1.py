"""C10 demo 1 - `Not` / `Xor` over a constraint that owns auxiliary z3 variables
(task groups, TasksContiguous, ScheduleNTasksInTimeIntervals) is vacuous.

Two fixed-duration tasks are pinned (by raw expressions) at t1=[0,2], t2=[2,4].
For each operand below the operand's documented meaning is TRUE for that
schedule (recomputed here from the returned schedule, not hard coded), so
`Not(operand)` must make the problem unsatisfiable, and `Xor(operand, P)` with
P also true must be unsatisfiable too.  The unchanged library returns the
pinned schedule anyway.

exit 1 = property violated, exit 0 = library behaves as the property requires.
"""
import contextlib
import io
import os
import sys

sys.path.insert(0, "/repo")

import processscheduler as ps  # noqa: E402
import z3  # noqa: E402


def solve(problem):
    with contextlib.redirect_stdout(io.StringIO()):
        solver = ps.SchedulingSolver(problem=problem)
        return solver.solve()


# ---- independent meanings, computed on a returned schedule -------------------
def in_window(sched, names, lo, up):
    """UnorderedTaskGroup(time_interval=(lo, up)): every task inside [lo, up]"""
    return all(sched[n][0] >= lo and sched[n][1] <= up for n in names)


def ordered(sched, names):
    """OrderedTaskGroup(kind='lax'): each task ends before the next one starts"""
    return all(sched[a][1] <= sched[b][0] for a, b in zip(names, names[1:]))


def contiguous(sched, names):
    """TasksContiguous: sorted by start, each task starts when the previous ends"""
    iv = sorted(sched[n] for n in names)
    return all(iv[i][1] == iv[i + 1][0] for i in range(len(iv) - 1))


def n_in_intervals(sched, names, intervals):
    return sum(
        1
        for n in names
        if any(sched[n][0] >= lo and sched[n][1] <= up for lo, up in intervals)
    )


OPERANDS = {
    "UnorderedTaskGroup(time_interval=(0,5))": (
        lambda t1, t2: ps.UnorderedTaskGroup(
            list_of_tasks=[t1, t2], time_interval=(0, 5)
        ),
        lambda s: in_window(s, ["t1", "t2"], 0, 5),
    ),
    "OrderedTaskGroup([t1,t2])": (
        lambda t1, t2: ps.OrderedTaskGroup(list_of_tasks=[t1, t2]),
        lambda s: ordered(s, ["t1", "t2"]),
    ),
    "TasksContiguous([t1,t2])": (
        lambda t1, t2: ps.TasksContiguous(list_of_tasks=[t1, t2]),
        lambda s: contiguous(s, ["t1", "t2"]),
    ),
    "ScheduleNTasksInTimeIntervals(min 2 in (0,5))": (
        lambda t1, t2: ps.ScheduleNTasksInTimeIntervals(
            list_of_tasks=[t1, t2],
            nb_tasks_to_schedule=2,
            list_of_time_intervals=[(0, 5)],
            kind="min",
        ),
        lambda s: n_in_intervals(s, ["t1", "t2"], [(0, 5)]) >= 2,
    ),
}


def new_problem(tag):
    pb = ps.SchedulingProblem(name=f"demo1_{tag}", horizon=10)
    t1 = ps.FixedDurationTask(name="t1", duration=2)
    t2 = ps.FixedDurationTask(name="t2", duration=2)
    # user supplied expressions: pin the schedule
    ps.ConstraintFromExpression(expression=z3.And(t1._start == 0, t2._start == 2))
    return pb, t1, t2


violations = []
for i, (label, (make, meaning)) in enumerate(OPERANDS.items()):
    # --- Not(operand)
    pb, t1, t2 = new_problem(f"not{i}")
    ps.Not(constraint=make(t1, t2))
    sol = solve(pb)
    if sol:
        sched = {n: (t.start, t.end) for n, t in sol.tasks.items()}
        operand_value = meaning(sched)
        if not (not operand_value):  # Not(operand) must hold on the returned schedule
            violations.append(
                f"Not({label}): library returned {sched}, on which the operand is "
                f"{operand_value}, so the negation is False"
            )
    # --- Xor(operand, t1 starts at 0)
    pb, t1, t2 = new_problem(f"xor{i}")
    ps.Xor(constraint_1=make(t1, t2), constraint_2=ps.TaskStartAt(task=t1, value=0))
    sol = solve(pb)
    if sol:
        sched = {n: (t.start, t.end) for n, t in sol.tasks.items()}
        a, b = meaning(sched), sched["t1"][0] == 0
        if not (a != b):
            violations.append(
                f"Xor({label}, TaskStartAt(t1,0)): library returned {sched}, on which "
                f"the operands are {a} and {b}, so the xor is False"
            )

if violations:
    print("C10 VIOLATED - the combination does not mean what its connective says:")
    for v in violations:
        print("  -", v)
    sys.exit(1)
print("ok: Not/Xor over constraints with auxiliary variables behave as boolean not/xor")
sys.exit(0)
