"""C18 / clause "every well-formed element is accepted".

Several objective classes hard-code their own name (and the name of the indicator
they create), so a second, different, well-formed objective of the same class is
refused as a "duplicate name" although the user never chose any name.
"""
import os, sys

sys.path.insert(0, "/repo")
import processscheduler as ps

problem = ps.SchedulingProblem(name="demo7", horizon=20)
t1 = ps.FixedDurationTask(name="T1", duration=2)
t2 = ps.FixedDurationTask(name="T2", duration=3)
w1, w2 = ps.Worker(name="W1"), ps.Worker(name="W2")
t1.add_required_resource(w1)
t2.add_required_resource(w2)
b1 = ps.NonConcurrentBuffer(name="B1", initial_level=5)
b2 = ps.NonConcurrentBuffer(name="B2", initial_level=5)
ps.TaskUnloadBuffer(task=t1, buffer=b1, quantity=1)
ps.TaskUnloadBuffer(task=t2, buffer=b2, quantity=1)

# pairs of objectives of one class over DISJOINT arguments: two different, meaningful elements
PAIRS = [
    ("ObjectiveMaximizeResourceUtilization", ps.ObjectiveMaximizeResourceUtilization,
     dict(resource=w1), dict(resource=w2)),
    ("ObjectiveMinimizeFlowtime", ps.ObjectiveMinimizeFlowtime,
     dict(list_of_tasks=[t1]), dict(list_of_tasks=[t2])),
    ("ObjectiveMinimizeMaxBufferLevel", ps.ObjectiveMinimizeMaxBufferLevel,
     dict(buffer=b1), dict(buffer=b2)),
    # control: this class derives its name from its argument and works
    ("ObjectiveMinimizeResourceCost", ps.ObjectiveMinimizeResourceCost,
     dict(list_of_resources=[w1]), dict(list_of_resources=[w2])),
]

violations = []
for label, cls, first, second in PAIRS:
    assert "name" not in first and "name" not in second  # the user supplies no name at all
    cls(**first)
    try:
        cls(**second)
    except ValueError as exc:
        print(f"REJECTED  second {label}: {exc}")
        violations.append(label)
    else:
        print(f"accepted  second {label}")

if violations:
    print("VIOLATION: a second well-formed objective on other arguments is refused: " + ", ".join(violations))
    sys.exit(1)
print("ok")
sys.exit(0)
