"""C02 / capacity clause: a CumulativeWorker placed in the list of a SelectWorkers
has no capacity limit at all.

Four tasks of duration 2 each need exactly one resource out of
[CW (cumulative, size 2), W (plain worker)].  At most 3 of them can run at the
same instant (2 on CW + 1 on W), so the minimal makespan is 4.
"""
import contextlib
import io
import os
import sys

sys.path.insert(0, "/repo")
import processscheduler as ps

pb = ps.SchedulingProblem(name="CumulativeInSelection")
cw = ps.CumulativeWorker(name="CW", size=2)
w = ps.Worker(name="W")
capacity = {"CW": cw.size, "W": 1}

for i in range(4):
    t = ps.FixedDurationTask(name=f"T{i}", duration=2)
    t.add_required_resource(
        ps.SelectWorkers(list_of_workers=[cw, w], nb_workers_to_select=1, kind="exact")
    )
ps.ObjectiveMinimizeMakespan()

solver = ps.SchedulingSolver(problem=pb)
with contextlib.redirect_stdout(io.StringIO()):
    solution = solver.solve()

if not solution:
    print("no schedule returned (nothing to check)")
    sys.exit(0)

# independent check: a worker selected by a SelectWorkers is busy for the whole
# span of the task, so count for every resource and every instant the scheduled
# tasks that hold it.
violations = []
for res_name, cap in capacity.items():
    holders = [
        (ts.name, ts.start, ts.end)
        for ts in solution.tasks.values()
        if ts.scheduled and res_name in ts.assigned_resources and ts.end > ts.start
    ]
    for instant in sorted({h[1] for h in holders}):
        running = [h[0] for h in holders if h[1] <= instant < h[2]]
        if len(running) > cap:
            violations.append(
                f"{res_name} (capacity {cap}) is busy with {len(running)} tasks at t={instant}: {running}"
            )

for ts in solution.tasks.values():
    print(f"  {ts.name}: [{ts.start},{ts.end}] on {ts.assigned_resources}")
if violations:
    print("PROPERTY VIOLATED (capacity):")
    for v in violations:
        print("  " + v)
    sys.exit(1)
print("capacity respected")
sys.exit(0)
