"""C12 demo 2 - one unsuccessful find_another_solution_for_variable() leaves the solver
unsatisfiable for good: every later find_another_solution() fails although valid,
never returned schedules exist.

Exit status 1 = property violated (unchanged library), 0 = property holds.
"""
import contextlib
import os
import sys

sys.path.insert(0, "/repo")
import processscheduler as ps

HORIZON = 2


@contextlib.contextmanager
def quiet():
    with open(os.devnull, "w") as devnull, contextlib.redirect_stdout(devnull):
        yield


def build(b_start=None):
    """A (duration 1) is pinned at 0, B (duration 1) is free in a horizon of 2"""
    pb = ps.SchedulingProblem(name="demo2", horizon=HORIZON)
    a = ps.FixedDurationTask(name="A", duration=1)
    b = ps.FixedDurationTask(name="B", duration=1)
    ps.TaskStartAt(task=a, value=0)
    if b_start is not None:  # used by the independent oracle only
        ps.TaskStartAt(task=b, value=b_start)
    return pb, a, b


def timing(solution):
    return tuple(
        (n, t.start, t.end, t.scheduled) for n, t in sorted(solution.tasks.items())
    )


def all_valid_timings():
    """independent oracle: A is at [0,1]; B may start at any s with s + 1 <= horizon.
    Each candidate is confirmed by a fresh solver on a fresh, fully pinned problem."""
    valid = set()
    for s in range(HORIZON):
        with quiet():
            pb, _, _ = build(b_start=s)
            ok = ps.SchedulingSolver(problem=pb).solve()
        assert ok
        valid.add((("A", 0, 1, True), ("B", s, s + 1, True)))
    return valid


def main():
    valid = all_valid_timings()
    with quiet():
        pb, a, b = build()
        solver = ps.SchedulingSolver(problem=pb)
        first = solver.solve()
    returned = [timing(first)]
    print("solve()                                   ->", returned[0])

    # A.start can only be 0: the request for another value must fail, and it does
    with quiet():
        other = solver.find_another_solution_for_variable(a._start)
    print("find_another_solution_for_variable(A.start) ->", other and timing(other))
    if other:
        returned.append(timing(other))

    # but there still is a schedule that differs from everything returned so far
    with quiet():
        nxt = solver.find_another_solution()
    print("find_another_solution()                   ->", nxt and timing(nxt))

    left = valid - set(returned)
    if not nxt:
        if left:
            print(
                "VIOLATION: find_another_solution() failed although a valid schedule "
                "that was never returned is left:",
                sorted(left),
            )
            return 1
        print("OK: nothing was left")
        return 0
    t = timing(nxt)
    if t not in valid or t in returned:
        print("VIOLATION: returned schedule is invalid or a repetition:", t)
        return 1
    print("OK: a new valid schedule was returned")
    return 0


if __name__ == "__main__":
    sys.exit(main())
