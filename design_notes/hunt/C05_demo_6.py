"""C05 demo 6 - one task with two SelectWorkers that share a worker.
Task T needs one of {W1, W2} (first role) and one of {W1, W3} (second role),
and the two roles must be held by distinct workers (DistinctWorkers).
Valid assignments: (W2, W3), (W1, W3), (W2, W1).  The library creates the SAME
z3 variable 'W1_maybe_busy_T_start/_end' for both selections and ties it to two
different 'unique' past points, so every assignment where W1 is not picked by
BOTH selections is contradictory: the solver says 'no solution exists'.

Run:  cd /tmp/h1_C05 && /venv/bin/python _hunt/demo_6.py
exit 1 = property violated, exit 0 = library behaves as documented.
"""
import contextlib
import io
import itertools
import os
import sys

sys.path.insert(0, "/repo")
import processscheduler as ps

HORIZON = 10
DURATION = 2
ROLE_1, ROLE_2 = ["W1", "W2"], ["W1", "W3"]


def candidate_is_valid(start, end, pick_1, pick_2):
    """docs/resource_assignment.md: SelectWorkers(kind='exact', nb=1) assigns
    exactly one worker of the list; docs/resource_constraints.md:
    DistinctWorkers forbids a worker selected by both."""
    if not (0 <= start and end - start == DURATION and end <= HORIZON):
        return False
    if len(pick_1) != 1 or len(pick_2) != 1:
        return False
    if not (set(pick_1) <= set(ROLE_1) and set(pick_2) <= set(ROLE_2)):
        return False
    return not (set(pick_1) & set(pick_2))


def run():
    pb = ps.SchedulingProblem(name="demo6", horizon=HORIZON)
    workers = {n: ps.Worker(name=n) for n in ("W1", "W2", "W3")}
    task = ps.FixedDurationTask(name="T", duration=DURATION)
    s1 = ps.SelectWorkers(list_of_workers=[workers[n] for n in ROLE_1])
    s2 = ps.SelectWorkers(list_of_workers=[workers[n] for n in ROLE_2])
    task.add_required_resource(s1)
    task.add_required_resource(s2)
    ps.DistinctWorkers(select_workers_1=s1, select_workers_2=s2)
    out = io.StringIO()
    with contextlib.redirect_stdout(out):
        solution = ps.SchedulingSolver(problem=pb).solve()
    return solution, out.getvalue()


def main():
    valid = [
        (p1, p2)
        for p1, p2 in itertools.product(ROLE_1, ROLE_2)
        if candidate_is_valid(0, DURATION, [p1], [p2])
    ]
    print("valid assignments by the documented meaning:", valid)
    assert ("W2", "W3") in valid and ("W1", "W1") not in valid

    solution, log = run()
    if valid and not solution and "no solution exists" in log:
        print(f"VIOLATION: {len(valid)} valid assignments exist (e.g. T=[0,2] "
              "with W2 and W3) but the solver reports 'no solution exists'.")
        sys.exit(1)
    if solution:
        print("solution:", solution.tasks["T"].assigned_resources)
    sys.exit(0)


if __name__ == "__main__":
    main()
