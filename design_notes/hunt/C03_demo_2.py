"""TasksContiguous with a zero-duration task: the returned schedule puts the
zero-duration task strictly inside the other task instead of at one of its ends.

Exits 1 when the scheduled tasks of the constraint do not form a chain
(each task starting exactly when the previous one ends, none inside another)."""
import contextlib
import io
import os
import sys

sys.path.insert(0, "/repo")
import processscheduler as ps


def quiet(func, *args, **kwargs):
    with contextlib.redirect_stdout(io.StringIO()), contextlib.redirect_stderr(io.StringIO()):
        return func(*args, **kwargs)


def contiguous(solution, names):
    spans = sorted((solution.tasks[n].start, solution.tasks[n].end) for n in names if solution.tasks[n].scheduled)
    chain = all(spans[i + 1][0] == spans[i][1] for i in range(len(spans) - 1))
    # no task may lie strictly inside another one
    nested = any(
        a != b and a[0] < b[0] and b[1] < a[1] for a in spans for b in spans
    )
    return chain and not nested, spans


failures = []

# case 1: a fixed task and a ZeroDurationTask
pb = ps.SchedulingProblem(name="demo2_zero", horizon=10)
x = ps.FixedDurationTask(name="X", duration=5)
y = ps.ZeroDurationTask(name="Y")
ps.TasksContiguous(list_of_tasks=[x, y])
solution = quiet(quiet(ps.SchedulingSolver, problem=pb).solve)
if solution:
    ok, spans = contiguous(solution, ["X", "Y"])
    print("case 1 (Fixed 5 + ZeroDuration):", spans, "ok" if ok else "VIOLATION: Y is strictly inside X")
    if not ok:
        failures.append(("case1", spans))
else:
    print("case 1: no schedule returned")

# case 2: same with a VariableDurationTask whose duration is forced to 0
pb = ps.SchedulingProblem(name="demo2_var", horizon=10)
x = ps.FixedDurationTask(name="X", duration=5)
v = ps.VariableDurationTask(name="V", max_duration=1)
z = ps.FixedDurationTask(name="Z", duration=2)
ps.TasksContiguous(list_of_tasks=[x, v, z])
ps.TaskStartAt(task=x, value=0)
ps.TaskStartAt(task=v, value=3)
ps.TaskEndAt(task=v, value=3)
solution = quiet(quiet(ps.SchedulingSolver, problem=pb).solve)
if solution:
    ok, spans = contiguous(solution, ["X", "V", "Z"])
    print("case 2 (X pinned at [0,5], V pinned at [3,3]):", spans, "ok" if ok else "VIOLATION: V is strictly inside X")
    if not ok:
        failures.append(("case2", spans))
else:
    print("case 2: no schedule returned (correct: V at 3 cannot be contiguous with X=[0,5])")

if failures:
    print("PROPERTY VIOLATED:", failures)
    sys.exit(1)
print("property holds")
sys.exit(0)
