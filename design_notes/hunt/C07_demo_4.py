"""C07 demo 4 - solving a multi-objective problem mutates the *active* problem:
the solver registers a new indicator "EquivalentIndicator" and a new objective
"MinimizeEquivalentObjective" in processscheduler.base.active_problem.

SchedulingSolver.build_equivalent_weighted_objective() instantiates
IndicatorFromMathExpression(...) and Objective(...); both constructors add
themselves to the globally active problem.  Consequences (all with the
unchanged public API, nothing exotic):

  A. Same problem, second solver (the natural way to check that the incremental
     and the built-in optimiser agree): the second solver cannot even be
     initialised -> ValueError, no schedule, no optimum.
  B. Another, unrelated single-objective problem that merely happens to be the
     most recently created one receives the foreign objective; afterwards
     optimizer="optimize" answers False ("no solution exists") for a trivially
     feasible bounded problem, and the incremental optimiser raises.
"""
import contextlib, io, os, sys, warnings

sys.path.insert(0, "/repo")
import processscheduler as ps

warnings.simplefilter("ignore")
H = 20


def build_multi():
    """docs/objectives.md 'MultiObjective2' example, weights 1 and 2"""
    pb = ps.SchedulingProblem(name="MultiObjective2", horizon=H)
    t1 = ps.FixedDurationTask(name="task1", duration=3)
    t2 = ps.FixedDurationTask(name="task2", duration=3)
    ps.ConstraintFromExpression(expression=t1._end == H - t2._start)
    i1 = ps.IndicatorFromMathExpression(name="Task1End", expression=t1._end)
    i2 = ps.IndicatorFromMathExpression(name="Task2Start", expression=t2._start)
    ps.ObjectiveMaximizeIndicator(target=i1, weight=1)
    ps.ObjectiveMaximizeIndicator(target=i2, weight=2)
    return pb


def weighted(sol):
    e1, s2 = sol.tasks["task1"].end, sol.tasks["task2"].start
    assert sol.tasks["task1"].start == e1 - 3 >= 0 and e1 == H - s2
    assert 0 <= s2 and sol.tasks["task2"].end == s2 + 3 <= H
    return 1 * e1 + 2 * s2


def solve(pb, **kw):
    solver = ps.SchedulingSolver(problem=pb, **kw)
    with contextlib.redirect_stdout(io.StringIO()):
        return solver.solve()


# brute force: task1.end = e, task2.start = H - e, both tasks inside [0, H]
best_multi = max(e + 2 * (H - e) for e in range(3, H + 1) if H - e + 3 <= H)

failed = False

# ------------------------------------------------------------------ case A
pb = build_multi()
n_obj_before = len(pb.objectives)
v_inc = weighted(solve(pb, optimizer="incremental"))
print(f"A. incremental: weighted objective = {v_inc} (brute force best {best_multi})")
if v_inc != best_multi:
    failed = True
print(f"   objectives of the problem before/after solve(): {n_obj_before} -> "
      f"{len(pb.objectives)} {list(pb.objectives)}")
if len(pb.objectives) != n_obj_before:
    failed = True
    print("   VIOLATION: solve() added an objective to the user's problem")
try:
    sol = solve(pb, optimizer="optimize", optimize_priority="weight")
    v_opt = weighted(sol) if sol else None
    print(f"   optimize/weight on the same problem: weighted objective = {v_opt}")
    if v_opt != best_multi:
        failed = True
        print("   VIOLATION: built-in optimiser does not return the best value")
except Exception as exc:  # noqa
    failed = True
    print(f"   VIOLATION: second optimiser on the same problem raised "
          f"{type(exc).__name__}: {exc}")

# ------------------------------------------------------------------ case B
pb1 = build_multi()
pb2 = ps.SchedulingProblem(name="Single", horizon=H)  # now the active problem
u = ps.FixedDurationTask(name="u", duration=3)
ju = ps.IndicatorFromMathExpression(name="UStart", expression=u._start)
ps.ObjectiveMaximizeIndicator(target=ju)
best_single = H - 3

solve(pb1, optimizer="incremental")  # solving pb1 ...
print(f"B. objectives of the *other* problem after solving pb1: {list(pb2.objectives)}")
for kw in ({"optimizer": "optimize"}, {"optimizer": "incremental"}):
    try:
        sol = solve(pb2, **kw)
        got = sol.tasks["u"].start if sol else None
        print(f"   {kw['optimizer']:11s} on 'Single': u.start = {got} (best {best_single})")
        if got != best_single:
            failed = True
            print("   VIOLATION: no/non-optimal schedule for a feasible bounded problem")
    except Exception as exc:  # noqa
        failed = True
        print(f"   VIOLATION: {kw['optimizer']} on 'Single' raised {type(exc).__name__}: {exc}")

sys.exit(1 if failed else 0)
