"""C14 demo 7 - two families of "parking" instants share the same negative integers,
and which ones coincide depends on the task declaration order.

  * an unscheduled optional task is parked at  -(rank of its declaration)  (-1, -2, ...)
  * a worker of a SelectWorkers that is NOT selected gets its busy interval parked at a
    "unique negative integer" handed out by the problem (-2, -3, ...)
ResourceNonDelay / ResourceTasksDistance / IndicatorResourceIdle sort the busy intervals
of a worker with sort_no_duplicates, i.e. require pairwise different starts.  When both
kinds of parked intervals of one worker land on the same integer the schedule is lost.

Problem: horizon 10, workers W1, W2,
  M  mandatory, duration 2, needs SelectWorkers([W1, W2], 1)
  O  optional,  duration 2, needs W1
  ResourceUnavailable(W1, [(0, 10)])        -> M has to be done by W2, O cannot run
  OptionalTaskForceSchedule(O, False)
  ResourceNonDelay(W1)
Valid schedule by the documented meaning: M on W2 at [0,2], O not scheduled, W1 does
nothing at all (so "no idle time between its tasks" holds trivially).
Only the order in which M and O are declared differs between the two runs.

Exit status 1 = property violated, 0 = fine.
"""
import contextlib
import io
import os
import sys

sys.path.insert(0, "/repo")
import processscheduler as ps  # noqa: E402

HORIZON = 10


def library_verdict(declaration_order):
    pb = ps.SchedulingProblem(name="ParkingDemo", horizon=HORIZON)
    w1 = ps.Worker(name="W1")
    w2 = ps.Worker(name="W2")
    tasks = {}
    for name in declaration_order:
        tasks[name] = ps.FixedDurationTask(name=name, duration=2, optional=(name == "O"))
    tasks["M"].add_required_resource(
        ps.SelectWorkers(list_of_workers=[w1, w2], nb_workers_to_select=1)
    )
    tasks["O"].add_required_resource(w1)
    ps.ResourceUnavailable(resource=w1, list_of_time_intervals=[(0, HORIZON)])
    ps.OptionalTaskForceSchedule(task=tasks["O"], to_be_scheduled=False)
    ps.ResourceNonDelay(resource=w1)
    solver = ps.SchedulingSolver(problem=pb)
    with contextlib.redirect_stdout(io.StringIO()):
        solution = solver.solve()
    return bool(solution)


def reference_verdict():
    """Check the candidate schedule M=[0,2] on W2, O unscheduled, by hand."""
    m_start, m_end, m_worker = 0, 2, "W2"
    o_scheduled = False
    w1_tasks = []  # W1 processes nothing
    w2_tasks = [(m_start, m_end)]
    ok = m_end <= HORIZON and m_worker in ("W1", "W2")
    ok = ok and not o_scheduled  # forced
    ok = ok and not w1_tasks  # W1 is unavailable on the whole horizon
    # non delay on W1: consecutive tasks of W1 are contiguous (no task: nothing to check)
    ok = ok and all(
        w1_tasks[i][1] == w1_tasks[i + 1][0] for i in range(len(w1_tasks) - 1)
    )
    ok = ok and len(w2_tasks) == 1
    return ok


def main():
    expected = reference_verdict()
    v1 = library_verdict(["M", "O"])
    v2 = library_verdict(["O", "M"])
    print(f"reference verdict: feasible={expected}")
    print(f"declared M then O: feasible={v1}")
    print(f"declared O then M: feasible={v2}")
    failed = False
    if v1 != v2:
        print("VIOLATION: permuting the declaration order of two tasks changes the verdict")
        failed = True
    if v1 != expected or v2 != expected:
        print("VIOLATION: a verdict differs from the documented meaning")
        failed = True
    return 1 if failed else 0


if __name__ == "__main__":
    sys.exit(main())
