"""Task groups (UnorderedTaskGroup / OrderedTaskGroup) bind an optional task that
is NOT scheduled: the documentation says task constraints "apply only if the task
is scheduled", but the group bounds the parked start/end of the unscheduled task,
so the library refuses every schedule in which the optional task is left out.

The demo enumerates, in plain Python, the schedules allowed by the documented
meaning.  Exits 1 when such a schedule exists but the library returns none (or
returns one that breaks the group), 0 otherwise."""
import contextlib
import io
import itertools
import os
import sys

sys.path.insert(0, "/repo")
import processscheduler as ps

HORIZON = 20


def quiet(func, *args, **kwargs):
    with contextlib.redirect_stdout(io.StringIO()), contextlib.redirect_stderr(io.StringIO()):
        return func(*args, **kwargs)


def group_ok(spans, window, ordered):
    """spans: list of (start, end) of the SCHEDULED tasks, in list order"""
    if window is not None and not all(window[0] <= s and e <= window[1] for s, e in spans):
        return False
    if ordered and not all(spans[i][1] <= spans[i + 1][0] for i in range(len(spans) - 1)):
        return False
    return True


def witness(durations, optional_unscheduled, window, ordered):
    """brute force: first schedule (unscheduled task left out) that satisfies the group"""
    names = [n for n in durations if n not in optional_unscheduled]
    for starts in itertools.product(range(HORIZON + 1), repeat=len(names)):
        spans = [(s, s + durations[n]) for n, s in zip(names, starts)]
        if all(e <= HORIZON for _, e in spans) and group_ok(spans, window, ordered):
            return dict(zip(names, spans))
    return None


failures = []

# case 1: unordered group with a time window, optional task forced out
pb = ps.SchedulingProblem(name="demo3_unordered", horizon=HORIZON)
x = ps.FixedDurationTask(name="X", duration=5)
y = ps.FixedDurationTask(name="Y", duration=5, optional=True)
ps.UnorderedTaskGroup(list_of_tasks=[x, y], time_interval=(10, 20))
ps.OptionalTaskForceSchedule(task=y, to_be_scheduled=False)
solution = quiet(quiet(ps.SchedulingSolver, problem=pb).solve)
w = witness({"X": 5, "Y": 5}, {"Y"}, (10, 20), ordered=False)
print("case 1 legal schedule by the documented meaning (Y unscheduled):", w)
if solution:
    spans = [(t.start, t.end) for t in solution.tasks.values() if t.scheduled]
    good = group_ok(spans, (10, 20), False) and not solution.tasks["Y"].scheduled
    print("case 1 library schedule:", spans, "ok" if good else "VIOLATION")
    if not good:
        failures.append("case1: wrong schedule")
elif w is not None:
    print("case 1 VIOLATION: library returns no schedule although one exists")
    failures.append("case1: group binds the unscheduled optional task")

# case 2: ordered group, the optional task in the middle is forced out
pb = ps.SchedulingProblem(name="demo3_ordered", horizon=HORIZON)
a = ps.FixedDurationTask(name="A", duration=3)
b = ps.FixedDurationTask(name="B", duration=3, optional=True)
c = ps.FixedDurationTask(name="C", duration=3)
ps.OrderedTaskGroup(list_of_tasks=[a, b, c])
ps.OptionalTaskForceSchedule(task=b, to_be_scheduled=False)
solution = quiet(quiet(ps.SchedulingSolver, problem=pb).solve)
w = witness({"A": 3, "B": 3, "C": 3}, {"B"}, None, ordered=True)
print("case 2 legal schedule by the documented meaning (B unscheduled):", w)
if solution:
    spans = [(solution.tasks[n].start, solution.tasks[n].end) for n in ("A", "B", "C") if solution.tasks[n].scheduled]
    good = group_ok(spans, None, True) and not solution.tasks["B"].scheduled
    print("case 2 library schedule:", spans, "ok" if good else "VIOLATION")
    if not good:
        failures.append("case2: wrong schedule")
elif w is not None:
    print("case 2 VIOLATION: library returns no schedule although one exists")
    failures.append("case2: ordered group binds the unscheduled optional task")

if failures:
    print("PROPERTY VIOLATED:", failures)
    sys.exit(1)
print("property holds")
sys.exit(0)
