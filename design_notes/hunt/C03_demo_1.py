"""ScheduleNTasksInTimeIntervals: kind="exact"/"max" do not cap the number of
tasks lying inside the listed intervals.

Exits 1 when a returned schedule has a number of tasks inside the intervals that
contradicts the requested count, 0 otherwise."""
import contextlib
import io
import os
import sys

sys.path.insert(0, "/repo")
import processscheduler as ps


def quiet(func, *args, **kwargs):
    with contextlib.redirect_stdout(io.StringIO()), contextlib.redirect_stderr(io.StringIO()):
        return func(*args, **kwargs)


def count_inside(solution, names, intervals):
    """independent recount: a scheduled task is 'inside' when [start, end] fits in one interval"""
    n = 0
    for name in names:
        t = solution.tasks[name]
        if t.scheduled and any(lo <= t.start and t.end <= up for lo, up in intervals):
            n += 1
    return n


failures = []
for kind, nb in (("exact", 1), ("max", 1), ("max", 0), ("exact", 0)):
    pb = ps.SchedulingProblem(name=f"demo1_{kind}_{nb}", horizon=12)
    tasks = [ps.FixedDurationTask(name=f"T{i}", duration=2) for i in range(3)]
    intervals = [(0, 6)]
    ps.ScheduleNTasksInTimeIntervals(
        list_of_tasks=tasks,
        nb_tasks_to_schedule=nb,
        list_of_time_intervals=intervals,
        kind=kind,
    )
    # a legal schedule exists for every case: e.g. nb tasks at [0,2], the others at [8,10]
    solver = quiet(ps.SchedulingSolver, problem=pb)
    solution = quiet(solver.solve)
    if not solution:
        print(f"kind={kind} nb={nb}: no schedule returned (nothing to check)")
        continue
    found = count_inside(solution, [t.name for t in tasks], intervals)
    ok = found == nb if kind == "exact" else found <= nb
    sched = {n: (t.start, t.end) for n, t in solution.tasks.items()}
    print(f"kind={kind} nb={nb}: schedule {sched} -> {found} task(s) inside {intervals}: {'ok' if ok else 'VIOLATION'}")
    if not ok:
        failures.append((kind, nb, found))

if failures:
    print("PROPERTY VIOLATED: requested (kind, N) vs tasks really inside the intervals:", failures)
    sys.exit(1)
print("property holds")
sys.exit(0)
