"""C17 / documented way of rendering: docs/gantt_chart.md (section matplotlib) and
the SchedulingSolution docstring ("Can be rendered to a matplotlib Gantt chart")
show

    solution = solver.solve()
    if solution is not None:
        solution.render_gantt_matplotlib()  # default render_mode is 'Resource'
        solution.render_gantt_matplotlib(render_mode='Task')

The checker runs exactly these documented calls on a trivial valid solution and
then verifies that a chart with the reported bar was produced.
"""
import os, sys, io, contextlib, warnings
sys.path.insert(0, "/repo")
import matplotlib
matplotlib.use("Agg")
import matplotlib.pyplot as plt
import processscheduler as ps

warnings.simplefilter("ignore")

pb = ps.SchedulingProblem(name="doc", horizon=5)
t = ps.FixedDurationTask(name="T", duration=2)
w = ps.Worker(name="W")
t.add_required_resource(w)
solver = ps.SchedulingSolver(problem=pb)
with contextlib.redirect_stdout(io.StringIO()):
    solution = solver.solve()
assert solution, "no solution"

failures = []
for kwargs in ({}, {"render_mode": "Task"}):
    plt.close("all")
    try:
        solution.render_gantt_matplotlib(**kwargs)  # as documented
    except Exception as exc:
        failures.append(
            f"solution.render_gantt_matplotlib({kwargs}) raised {type(exc).__name__}: {exc}"
        )
        continue
    # one bar from start to end must have been drawn
    ax = plt.gcf().axes[0]
    spans = [
        (p.vertices[:, 0].min(), p.vertices[:, 0].max())
        for c in ax.collections
        for p in c.get_paths()
    ]
    ts = solution.tasks["T"]
    if spans != [(ts.start, ts.end)]:
        failures.append(f"bars drawn {spans}, reported ({ts.start}, {ts.end})")

if failures:
    print("VIOLATION: the documented rendering call does not work")
    print("\n".join(failures))
    sys.exit(1)
print("ok")
sys.exit(0)
