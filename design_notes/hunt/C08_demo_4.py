"""C08 / utilisation, cost, number of tasks, buffer extrema depend on call order.

The builtin indicators copy resource._busy_intervals / buffer._buffer_levels at
construction time.  Anything assigned afterwards is ignored, and the solution
reports the stale value next to a schedule that contradicts it.
"""
import contextlib, io, os, sys
sys.path.insert(0, "/repo")
import processscheduler as ps

HORIZON, COST = 10, 3
pb = ps.SchedulingProblem(name="order", horizon=HORIZON)
a = ps.FixedDurationTask(name="a", duration=5)
b = ps.FixedDurationTask(name="b", duration=2)
w = ps.Worker(name="w", cost=ps.ConstantFunction(value=COST))
buf = ps.NonConcurrentBuffer(name="B", initial_level=5)

# indicators are declared first ...
util = ps.IndicatorResourceUtilization(resource=w)
cost = ps.IndicatorResourceCost(list_of_resources=[w])
nb = ps.IndicatorNumberTasksAssigned(resource=w)
bmax = ps.IndicatorMaxBufferLevel(buffer=buf)

# ... and the assignments afterwards
a.add_required_resource(w)
b.add_required_resource(w)
ps.TaskLoadBuffer(task=a, buffer=buf, quantity=4)

with contextlib.redirect_stdout(io.StringIO()):
    sol = ps.SchedulingSolver(problem=pb).solve()
if not sol:
    print("no solution"); sys.exit(1)

assignments = sol.resources["w"].assignments
busy = sum(e - s for _, s, e in assignments)
expected = {
    util.name: 100 * busy // HORIZON,
    cost.name: COST * busy,
    nb.name: len(assignments),
    bmax.name: max(sol.buffers["B"].level),
}
print("assignments of w:", assignments, "| buffer B levels:", sol.buffers["B"].level)
bad = False
for name, exp in expected.items():
    rep = sol.indicators[name]
    flag = "" if abs(rep - exp) <= 1 else "   <-- VIOLATION"
    bad = bad or bool(flag)
    print(f"{name}: reported {rep}, recomputed on the reported schedule {exp}{flag}")
sys.exit(1 if bad else 0)
