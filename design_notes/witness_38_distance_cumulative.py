import processscheduler as ps
pb = ps.SchedulingProblem(name="w38", horizon=20)
t1 = ps.FixedDurationTask(name="t1", duration=2)
t2 = ps.FixedDurationTask(name="t2", duration=3)
cw = ps.CumulativeWorker(name="cw", size=2)
t1.add_required_resource(cw); t2.add_required_resource(cw)
try:
    ps.ResourceTasksDistance(resource=cw, distance=2, mode="min")
    print("accepted")
except Exception as e:
    print("REJECTED:", type(e).__name__, e)
