import processscheduler as ps
def build():
    pb = ps.SchedulingProblem(name="w37", horizon=20)
    t1 = ps.FixedDurationTask(name="t1", duration=2)
    t2 = ps.FixedDurationTask(name="t2", duration=3)
    w = ps.Worker(name="w")
    t1.add_required_resource(w); t2.add_required_resource(w)
    i1 = ps.IndicatorFromMathExpression(name="i1", expression=t1._start)
    i2 = ps.IndicatorFromMathExpression(name="i2", expression=t2._start)
    ps.ObjectiveMaximizeIndicator(name="o1", target=i1, weight=1)
    ps.ObjectiveMaximizeIndicator(name="o2", target=i2, weight=1)
    return pb
res = {}
for opt, prio in (("incremental", "pareto"), ("optimize", "weight"), ("optimize","lex")):
    pb = build()
    s = ps.SchedulingSolver(problem=pb, optimizer=opt, optimize_priority=prio, verbosity=0)
    sol = s.solve()
    res[(opt, prio)] = (sol.tasks["t1"].start + sol.tasks["t2"].start)
print(res)
