import processscheduler as ps
def run(cls, start, dur):
    pb = ps.SchedulingProblem(name="w39", horizon=20)
    t = ps.FixedDurationTask(name="t", duration=dur)
    w = ps.Worker(name="w")
    t.add_required_resource(w)
    cls(resource=w, list_of_time_intervals=[(2, 4)], period=5)
    ps.TaskStartAt(task=t, value=start)
    s = ps.SchedulingSolver(problem=pb, verbosity=0)
    return bool(s.solve())
bad = 0
for cls in (ps.ResourcePeriodicallyUnavailable, ps.ResourcePeriodicallyInterrupted):
    for start in range(0, 10):
        for dur in range(1, 7):
            overl = any((x % 5) in (2,3) for x in range(start, start+dur))
            acc = run(cls, start, dur)
            if acc == overl:
                bad += 1
                print(cls.__name__, "start", start, "dur", dur, "accepted" if acc else "rejected", "overlaps a window:", overl)
print("disagreements:", bad)
