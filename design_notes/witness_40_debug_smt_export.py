"""Witness for finding #40 (C16, R-SMT-TRACKED): with debug=True every assertion goes to the solver through assert_and_track; z3 prints
a tracked assertion as `(=> label formula)` and leaves the label a free Boolean constant, so the text export_to_smt2 writes is
satisfiable for EVERY problem, also an infeasible one (check() itself assumes the labels).  Run: /venv/bin/python this_file
expected output:  debug False ... exported text check: unsat   /   debug True ... exported text check: sat
(not part of any check: the checks are static; this only reproduces the defect against the real code)"""
import sys, io, contextlib
sys.path.insert(0, "/repo")
import processscheduler as ps, z3
def build():
    pb = ps.SchedulingProblem(name="p", horizon=3)
    t = ps.FixedDurationTask(name="t", duration=5)   # cannot fit in horizon 3
    return pb
for debug in (False, True):
    pb = build()
    s = ps.SchedulingSolver(problem=pb, debug=debug)
    with contextlib.redirect_stdout(io.StringIO()):
        s.export_to_smt2("/tmp/wit/out.smt2")
        ok = s.solve()
    txt = open("/tmp/wit/out.smt2").read()
    chk = z3.Solver(); chk.from_string(txt)
    print("debug", debug, "solve:", bool(ok), "exported text check:", chk.check())
