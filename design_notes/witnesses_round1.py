import processscheduler as ps, io, contextlib
def quiet(f):
    with contextlib.redirect_stdout(io.StringIO()):
        return f()
# candidate A: ResourceInterrupted forces an optional variable-duration task with min_duration>0 to be scheduled
def A():
    pb = ps.SchedulingProblem(name="a", horizon=10)
    t = ps.VariableDurationTask(name="t", min_duration=2, optional=True)
    w = ps.Worker(name="w")
    t.add_required_resource(w)
    ps.ResourceInterrupted(resource=w, list_of_time_intervals=[(3, 4)])
    ps.OptionalTaskForceSchedule(task=t, to_be_scheduled=False)
    s = ps.SchedulingSolver(problem=pb).solve()
    return bool(s)
print("A expected True (task may stay unscheduled) got:", quiet(A))
def A0():
    pb = ps.SchedulingProblem(name="a0", horizon=10)
    t = ps.VariableDurationTask(name="t", min_duration=2, optional=True)
    w = ps.Worker(name="w")
    t.add_required_resource(w)
    ps.OptionalTaskForceSchedule(task=t, to_be_scheduled=False)
    s = ps.SchedulingSolver(problem=pb).solve()
    return bool(s)
print("A0 (without the resource constraint) got:", quiet(A0))
# candidate B: flowtime single resource with an unscheduled optional task
def B(optional_unscheduled):
    pb = ps.SchedulingProblem(name="b", horizon=20)
    w = ps.Worker(name="w")
    t1 = ps.FixedDurationTask(name="t1", duration=2); t1.add_required_resource(w)
    t2 = ps.FixedDurationTask(name="t2", duration=2); t2.add_required_resource(w)
    ps.TaskStartAt(task=t1, value=3); ps.TaskStartAt(task=t2, value=7)
    if optional_unscheduled:
        t3 = ps.FixedDurationTask(name="t3", duration=2, optional=True); t3.add_required_resource(w)
        ps.OptionalTaskForceSchedule(task=t3, to_be_scheduled=False)
    ps.ObjectiveMinimizeFlowtimeSingleResource(resource=w)
    s = ps.SchedulingSolver(problem=pb).solve()
    return s.indicators if s else s
print("B without optional:", quiet(lambda: B(False)))
print("B with unscheduled optional:", quiet(lambda: B(True)))
import processscheduler as ps, io, contextlib
def quiet(f):
    with contextlib.redirect_stdout(io.StringIO()):
        return f()
def ML():
    pb = ps.SchedulingProblem(name="ml", horizon=30)
    t1 = ps.FixedDurationTask(name="t1", duration=2, due_date=20, due_date_is_deadline=False)
    t2 = ps.FixedDurationTask(name="t2", duration=2, due_date=5, due_date_is_deadline=False, optional=True)
    ps.TaskStartAt(task=t1, value=0)
    ps.OptionalTaskForceSchedule(task=t2, to_be_scheduled=False)
    ps.IndicatorMaximumLateness()
    s = ps.SchedulingSolver(problem=pb).solve()
    return s.indicators, s.tasks['t2'].scheduled, s.tasks['t2'].end
print("MaximumLateness: expected -18 (only t1 counts) got", quiet(ML))
def SL():
    pb = ps.SchedulingProblem(name="sl", horizon=10)
    t1 = ps.FixedDurationTask(name="t1", duration=2)
    t2 = ps.FixedDurationTask(name="t2", duration=2, optional=True)
    ps.OptionalTaskForceSchedule(task=t2, to_be_scheduled=False)
    ps.ObjectiveTasksStartLatest()
    s = ps.SchedulingSolver(problem=pb).solve()
    return s.tasks['t1'].start, s.indicators
print("StartLatest: expected t1 start 8 got", quiet(SL))
import processscheduler as ps, io, contextlib
def quiet(f):
    with contextlib.redirect_stdout(io.StringIO()):
        return f()
def OR():
    pb = ps.SchedulingProblem(name="or", horizon=20)
    t = ps.FixedDurationTask(name="t", duration=2)
    ind = ps.IndicatorFromMathExpression(name="s", expression=t._start)
    b = ps.IndicatorBounds(indicator=ind, lower_bound=3, upper_bound=5)
    ps.Or(list_of_constraints=[b])
    ps.TaskStartAt(task=t, value=10)
    return bool(ps.SchedulingSolver(problem=pb).solve())
print("Or([3 <= s <= 5]) with s pinned at 10: expected False got", quiet(OR))
import processscheduler as ps, io, contextlib
def quiet(f):
    with contextlib.redirect_stdout(io.StringIO()):
        return f()
def TG():
    pb = ps.SchedulingProblem(name="tg", horizon=20)
    a = ps.FixedDurationTask(name="a", duration=2); b = ps.FixedDurationTask(name="b", duration=2); c = ps.FixedDurationTask(name="c", duration=2)
    g = ps.UnorderedTaskGroup(list_of_tasks=[a, b], optional=True)
    try:
        ps.TaskPrecedence(task_before=g, task_after=c)
        return "accepted"
    except Exception as e:
        return f"EXC {type(e).__name__}: {e}"
print("TaskPrecedence(optional group, task): expected accepted, got", quiet(TG))
import processscheduler as ps, io, contextlib
def quiet(f):
    with contextlib.redirect_stdout(io.StringIO()):
        return f()
def ND():
    pb = ps.SchedulingProblem(name="nd", horizon=10)
    w = ps.Worker(name="w")
    try:
        ps.ResourceNonDelay(resource=w)
        return "accepted"
    except Exception as e:
        return f"rejected: {type(e).__name__}"
print("ResourceNonDelay on an unassigned worker: expected rejected, got", quiet(ND))
def UT():
    pb = ps.SchedulingProblem(name="ut", horizon=10)
    w = ps.Worker(name="w")
    t = ps.FixedDurationTask(name="t", duration=2); t.add_required_resource(w)
    a = ps.IndicatorResourceUtilization(resource=w)
    try:
        b = ps.IndicatorResourceUtilization(resource=w)
        return ("second accepted", a.name, b.name, len(pb.indicators))
    except Exception as e:
        return f"rejected: {type(e).__name__}"
print("two IndicatorResourceUtilization(w): expected second rejected, got", quiet(UT))
import processscheduler as ps, io, contextlib
def quiet(f):
    with contextlib.redirect_stdout(io.StringIO()):
        return f()
def QF(b1, b2, t1, t2):
    pb = ps.SchedulingProblem(name="qf", horizon=10)
    ta = ps.FixedDurationTask(name=t1, duration=2); tb = ps.FixedDurationTask(name=t2, duration=2)
    ps.TaskStartAt(task=ta, value=1); ps.TaskStartAt(task=tb, value=5)
    ba = ps.ConcurrentBuffer(name=b1, initial_level=10); bb = ps.ConcurrentBuffer(name=b2, initial_level=10)
    ps.TaskUnloadBuffer(task=ta, buffer=ba, quantity=3); ps.TaskUnloadBuffer(task=tb, buffer=bb, quantity=4)
    return bool(ps.SchedulingSolver(problem=pb).solve())
print("quantity functions: names (B1,B2,t1,t2):", quiet(lambda: QF("B1","B2","t1","t2")), "| names (B,B_x,x_t,t):", quiet(lambda: QF("B","B_x","x_t","t")), "(expected True both)")
