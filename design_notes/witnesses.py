"""Witnesses for the defects listed in DESIGN.md section 5 (row numbers in the names).

Reference material only: these scripts RUN the library and are therefore not part of any
check (the checks are static).  They exist so that every entry of known_findings.json /
every "fix:" commit can point at a concrete failing input.

Run from a directory that has no `processscheduler/` sub-directory so that the editable
install (/repo) is imported:   cd / && /venv/bin/python /verif/design_notes/witnesses.py
Each line prints: row, what a correct library would give, what this tree gives.
"""
import contextlib
import io
import os
import tempfile
import warnings

import z3

import processscheduler as ps

warnings.simplefilter("ignore")


def quiet(f):
    with contextlib.redirect_stdout(io.StringIO()):
        return f()


def show(row, expected, f):
    try:
        got = quiet(f)
    except Exception as exc:  # the exception itself is often the witness
        got = f"EXC {type(exc).__name__}: {str(exc)[:90]}"
    print(f"#{row:<3} expected: {expected:<44} got: {got}")


def solve(pb, **kw):
    return ps.SchedulingSolver(problem=pb, **kw).solve()


def w01a():
    pb = ps.SchedulingProblem(name="w01a", horizon=10)
    z = ps.ZeroDurationTask(name="z")
    ps.TaskStartAt(task=z, value=-4)
    sol = solve(pb)
    return sol and sol.tasks["z"].start


def w01b():
    pb = ps.SchedulingProblem(name="w01b", horizon=10)
    ps.ZeroDurationTask(name="z", optional=True)
    sol = solve(pb)
    return sol.tasks["z"].scheduled, sol.tasks["z"].start


def w02():
    pb = ps.SchedulingProblem(name="w02", horizon=10)
    t = ps.FixedDurationTask(name="t", duration=2, optional=True, release_date=3)
    ps.OptionalTaskForceSchedule(task=t, to_be_scheduled=False)
    return bool(solve(pb))


def w03():
    pb = ps.SchedulingProblem(name="w03", horizon=10)
    t = ps.FixedDurationTask(name="t", duration=4)
    w = ps.Worker(name="w")
    t.add_required_resource(w, dynamic=True)
    bs, be = w._busy_intervals[t]
    ps.ConstraintFromExpression(expression=z3.And(bs == 3, be == 1))
    sol = solve(pb)
    return sol and sol.resources["w"].assignments


def w04():
    pb = ps.SchedulingProblem(name="w04", horizon=2)
    c = ps.CumulativeWorker(name="c", size=2)
    w = ps.Worker(name="w")
    for i in range(4):
        t = ps.FixedDurationTask(name=f"t{i}", duration=2)
        s = ps.SelectWorkers(list_of_workers=[c, w])
        t.add_required_resource(s)
        ps.ConstraintFromExpression(expression=s._selection_dict[c])
    return bool(solve(pb))


def w05():
    pb = ps.SchedulingProblem(name="w05", horizon=10)
    t = ps.FixedDurationTask(name="t", duration=6)
    w1, w2 = ps.Worker(name="w1"), ps.Worker(name="w2")
    t.add_required_resource(
        ps.SelectWorkers(list_of_workers=[w1, w2]), delay_in=2, early_out=1
    )
    sol = solve(pb)
    return [a for r in sol.resources.values() for a in r.assignments]


def w06():
    pb = ps.SchedulingProblem(name="w06", horizon=10)
    t = ps.FixedDurationTask(name="t", duration=2, optional=True, work_amount=2)
    t.add_required_resource(ps.Worker(name="w"))
    ps.OptionalTaskForceSchedule(task=t, to_be_scheduled=False)
    return bool(solve(pb))


def w07():
    pb = ps.SchedulingProblem(name="w07", horizon=10)
    ts = [ps.FixedDurationTask(name=f"t{i}", duration=1) for i in range(3)]
    ps.ScheduleNTasksInTimeIntervals(
        list_of_tasks=ts,
        nb_tasks_to_schedule=1,
        list_of_time_intervals=[(0, 5)],
        kind="max",
    )
    for t in ts:
        ps.TaskStartAt(task=t, value=1)
    return bool(solve(pb))


def w08():
    pb = ps.SchedulingProblem(name="w08", horizon=10)
    t1 = ps.FixedDurationTask(name="t1", duration=2)
    t2 = ps.FixedDurationTask(name="t2", duration=2)
    ps.OrderedTaskGroup(list_of_tasks=[t1, t2])
    return bool(solve(pb))


def w09():
    pb = ps.SchedulingProblem(name="w09", horizon=20)
    t1 = ps.FixedDurationTask(name="t1", duration=2, optional=True)
    t2 = ps.FixedDurationTask(name="t2", duration=2)
    ps.UnorderedTaskGroup(list_of_tasks=[t1, t2], time_interval=[3, 15])
    ps.OptionalTaskForceSchedule(task=t1, to_be_scheduled=False)
    return bool(solve(pb))


def w10():
    pb = ps.SchedulingProblem(name="w10", horizon=10)
    t = ps.FixedDurationTask(name="t", duration=6)
    w = ps.Worker(name="w")
    t.add_required_resource(w)
    ps.TaskStartAt(task=t, value=1)
    ps.WorkLoad(resource=w, dict_time_intervals_and_bound={(2, 5): 3}, kind="max")
    return bool(solve(pb))


def w11():
    pb = ps.SchedulingProblem(name="w11", horizon=10)
    ws = [ps.Worker(name=f"w{i}") for i in range(3)]
    t1 = ps.FixedDurationTask(name="t1", duration=2)
    t2 = ps.FixedDurationTask(name="t2", duration=2)
    s1 = ps.SelectWorkers(list_of_workers=ws)
    s2 = ps.SelectWorkers(list_of_workers=ws)
    t1.add_required_resource(s1)
    t2.add_required_resource(s2)
    ps.DistinctWorkers(select_workers_1=s1, select_workers_2=s2)
    return bool(solve(pb))


def w12():
    pb = ps.SchedulingProblem(name="w12", horizon=10)
    t = ps.FixedDurationTask(name="t", duration=2)
    c = ps.CumulativeWorker(name="c", size=2)
    t.add_required_resource(c)
    ps.ResourcePeriodicallyUnavailable(
        resource=c, list_of_time_intervals=[(1, 2)], period=5
    )
    return "accepted"


def w13():
    pb = ps.SchedulingProblem(name="w13", horizon=30)
    t1 = ps.FixedDurationTask(name="t1", duration=3)
    t2 = ps.FixedDurationTask(name="t2", duration=3)
    w = ps.Worker(name="w")
    t1.add_required_resource(w)
    t2.add_required_resource(w)
    ps.ResourcePeriodicallyInterrupted(
        resource=w, list_of_time_intervals=[(1, 2)], period=5, end=10
    )
    ps.TaskStartAt(task=t1, value=0)  # fixed task across the interruption (1, 2)
    ps.TaskStartAt(task=t2, value=12)  # last task lies after end=10
    return bool(solve(pb))


def w14():
    pb = ps.SchedulingProblem(name="w14", horizon=10)
    c = ps.CumulativeWorker(name="c", size=2)
    for i in range(2):
        ps.FixedDurationTask(name=f"t{i}", duration=5).add_required_resource(c)
    ps.IndicatorResourceUtilization(resource=c)
    ps.IndicatorNumberTasksAssigned(resource=c)
    return solve(pb).indicators


def w15():
    res = []
    for with_constraint in (False, True):
        pb = ps.SchedulingProblem(name="w15", horizon=20)
        t = ps.FixedDurationTask(name="t", duration=1)
        w1, w2 = ps.Worker(name="w1"), ps.Worker(name="w2")
        s = ps.SelectWorkers(list_of_workers=[w1, w2])
        t.add_required_resource(s)
        ps.ConstraintFromExpression(expression=s._selection_dict[w1])
        if with_constraint:  # w2 is NOT selected, yet its moved point -3 % 5 == 2 is hit
            ps.ResourcePeriodicallyUnavailable(
                resource=w2, list_of_time_intervals=[(1, 4)], period=5
            )
        res.append(bool(solve(pb)))
    return res


def w16():
    pb = ps.SchedulingProblem(name="w16", horizon=10)
    t = ps.FixedDurationTask(name="t", duration=2, optional=True)
    b = ps.NonConcurrentBuffer(name="b", initial_level=5)
    ps.TaskUnloadBuffer(task=t, buffer=b, quantity=3)
    ps.OptionalTaskForceSchedule(task=t, to_be_scheduled=False)
    sol = solve(pb)
    return sol.buffers["b"].level, sol.buffers["b"].level_change_times


def w17():
    pb = ps.SchedulingProblem(name="w17", horizon=10)
    t = ps.FixedDurationTask(
        name="t", duration=2, optional=True, due_date=5, due_date_is_deadline=False
    )
    ps.OptionalTaskForceSchedule(task=t, to_be_scheduled=False)
    ps.IndicatorTardiness()
    ps.IndicatorEarliness()
    return solve(pb).indicators


def w18():
    pb = ps.SchedulingProblem(name="w18", horizon=10)
    t1 = ps.FixedDurationTask(name="t1", duration=2, optional=True)
    ps.FixedDurationTask(name="t2", duration=2)
    ps.OptionalTaskForceSchedule(task=t1, to_be_scheduled=False)
    sol = solve(pb)
    with tempfile.TemporaryDirectory() as d:
        sol.to_excel_file(os.path.join(d, "x.xlsx"))
    return f"unscheduled t1 start={sol.tasks['t1'].start} -> column {sol.tasks['t1'].start + 1}"


def w19():
    pb = ps.SchedulingProblem(name="w19", horizon=7)
    t = ps.FixedDurationTask(name="t", duration=7)
    w = ps.Worker(name="w")
    t.add_required_resource(w)
    ps.IndicatorResourceUtilization(resource=w)
    return solve(pb).indicators


def w20():
    pb = ps.SchedulingProblem(name="w20", horizon=10)
    ps.FixedDurationTask(name="t", duration=2, due_date=5, due_date_is_deadline=False)
    ps.IndicatorTardiness()
    ps.IndicatorNumberOfTardyTasks()
    return solve(pb).indicators


def w21():
    pb = ps.SchedulingProblem(name="w21", horizon=10)
    t = ps.FixedDurationTask(name="t", duration=2)
    w = ps.Worker(name="w")
    t.add_required_resource(w)
    a = ps.IndicatorResourceUtilization(resource=w)
    b = ps.IndicatorResourceUtilization(resource=w)
    return a.name, b.name, len(pb.indicators)


def w23():
    pb = ps.SchedulingProblem(name="w23", horizon=10)
    t = ps.FixedDurationTask(name="t", duration=2)
    i = ps.IndicatorFromMathExpression(name="i", expression=t._start)
    ps.IndicatorTarget(indicator=i, value=20, optional=True)
    return bool(solve(pb))


def w24():
    pb = ps.SchedulingProblem(name="w24", horizon=10)
    t = ps.FixedDurationTask(name="t", duration=4)
    w = ps.Worker(name="w")
    t.add_required_resource(w, dynamic=True)
    bs, be = w._busy_intervals[t]
    ps.ConstraintFromExpression(expression=z3.And(bs == 3, be == -1))
    sol = solve(pb)
    return sol.tasks["t"].assigned_resources, sol.resources["w"].assignments


def w25():
    pb = ps.SchedulingProblem(name="w25", horizon=20)
    t = ps.FixedDurationTask(name="t", duration=1)
    t.add_required_resource(ps.Worker(name="A_CumulativeWorker_1"))
    sol = solve(pb)
    return list(sol.resources), sol.tasks["t"].assigned_resources


def w26():
    pb = ps.SchedulingProblem(name="w26", horizon=10)
    ps.FixedDurationTask(name="t", duration=2, optional=True)
    s = ps.SchedulingSolver(problem=pb)
    s.solve()
    return bool(s.find_another_solution())


def w27():
    pb = ps.SchedulingProblem(name="w27", horizon=10)
    ps.FixedDurationTask(name="t", duration=2)
    ps.ObjectiveMinimizeMakespan()
    s = ps.SchedulingSolver(problem=pb)
    return bool(s.solve()), bool(s.solve())


def w28():
    pb = ps.SchedulingProblem(name="w28", horizon=10)
    ps.FixedDurationTask(name="t", duration=2)
    ps.ObjectiveMinimizeMakespan()
    ps.ObjectiveMinimizeFlowtime()
    return bool(solve(pb)), bool(solve(pb))


def w29():
    out = []
    for order in (0, 1):
        pb = ps.SchedulingProblem(name="w29", horizon=10)
        t = ps.FixedDurationTask(name="t", duration=2)
        i1 = ps.IndicatorFromMathExpression(name="a", expression=t._start)
        i2 = ps.IndicatorFromMathExpression(name="b", expression=t._end)
        objs = [
            lambda: ps.ObjectiveMinimizeIndicator(target=i1, weight=1),
            lambda: ps.ObjectiveMaximizeIndicator(target=i2, weight=1),
        ]
        if order:
            objs.reverse()
        for o in objs:
            o()
        out.append(solve(pb).tasks["t"].start)
    return out


def w30():
    out = []
    for name in ("x", "w_busy_t2"):
        pb = ps.SchedulingProblem(name="w30", horizon=4)
        t1 = ps.FixedDurationTask(name=name, duration=2)
        t2 = ps.FixedDurationTask(name="t2", duration=2)
        t2.add_required_resource(ps.Worker(name="w"))
        ps.TaskStartAt(task=t1, value=0)
        ps.TaskStartAt(task=t2, value=2)
        out.append(bool(solve(pb)))
    return out


def w31():
    pb = ps.SchedulingProblem(name="w31", horizon=20)
    ps.FixedDurationTask(name="t", duration=1)
    ps.ObjectiveMinimizeMakespan()
    s = ps.SchedulingSolver(problem=pb, optimizer="optimize")
    with tempfile.TemporaryDirectory() as d:
        s.export_to_smt2(os.path.join(d, "x.smt2"))
    return "exported"


def w32():
    pb = ps.SchedulingProblem(name="w32", horizon=4)
    t = ps.FixedDurationTask(name="t", duration=2)
    i = ps.IndicatorFromMathExpression(name="a", expression=t._start)
    ps.ObjectiveMinimizeIndicator(target=i)
    return "accepted"


if __name__ == "__main__":
    print("library:", ps.__file__)
    show("1a", "False (start >= 0 violated)", w01a)
    show("1b", "(True|False, start) consistent flag", w01b)
    show("2", "True (may stay unscheduled)", w02)
    show("3", "False (span 3..1 impossible)", w03)
    show("4", "False (4 tasks on size-2 cumulative)", w04)
    show("5", "[('t', 2, 5)]", w05)
    show("6", "True (may stay unscheduled)", w06)
    show("7", "False (max 1 in (0,5))", w07)
    show("8", "True", w08)
    show("9", "True (unscheduled member is inert)", w09)
    show("10", "True (overlap is 3 <= 3)", w10)
    show("11", "True (w0 / w1)", w11)
    show("12", "accepted", w12)
    show("13", "False (t1 crosses an interruption)", w13)
    show("14", "Utilization 100, Nb tasks 2", w14)
    show("15", "[True, True]", w15)
    show("16", "level [5], no change time", w16)
    show("17", "tardiness 0, earliness 0", w17)
    show("18", "no bar for t1", w18)
    show("19", "Utilization 100", w19)
    show("20", "two distinct indicator entries", w20)
    show("21", "second indicator rejected", w21)
    show("23", "True (optional target may be dropped)", w23)
    show("24", "both views agree", w24)
    show("25", "resource 'A_CumulativeWorker_1'", w25)
    show("26", "True (unscheduled / other starts)", w26)
    show("27", "(True, True)", w27)
    show("28", "(True, True)", w28)
    show("29", "same start for both orders", w29)
    show("30", "[True, True]", w30)
    show("31", "exported", w31)
    show("32", "accepted", w32)
