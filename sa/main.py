"""Driver: ./check <ID> [--tier quick|thorough] [--replay path] [--repo dir]

exit 0  every rule instance held (or is a listed known finding)
exit 1  at least one unlisted violation (a line `VIOLATION property=<id> replay=<path>` each)
exit 2  ANALYSIS-ERROR: the analyser cannot decide (vanished anchor, unknown idiom, instance floor, internal error)
"""
from __future__ import annotations

import argparse
import importlib
import json
import os
import sys
import traceback

HERE = os.path.dirname(os.path.abspath(__file__))
sys.path.insert(0, os.path.dirname(HERE))


def main(argv=None) -> int:
    ap = argparse.ArgumentParser()
    ap.add_argument("prop")
    ap.add_argument("--tier", default=os.environ.get("VERIF_TIER", "quick"), choices=["quick", "thorough"])
    ap.add_argument("--replay", default=None)
    ap.add_argument("--repo", default=None)
    args = ap.parse_args(argv)
    if args.repo:
        os.environ["VERIF_REPO"] = args.repo
    if args.replay:
        try:
            with open(args.replay) as f:
                print(json.dumps(json.load(f), indent=1))
        except OSError as e:
            print(f"cannot read replay file: {e}")
        print("(re-running the check on the current tree)")
    from sa import project as P
    from sa.report import Ctx, finish
    from rules import registry
    try:
        proj = P.load()
        if args.prop not in registry.PROPERTIES:
            print(f"ANALYSIS-ERROR property={args.prop}: no check registered")
            return 2
        spec = registry.PROPERTIES[args.prop]
        ctx = Ctx(args.prop, args.tier, proj)
        # a rule that cannot read an idiom fails the run (exit 2) - unless another rule has a violation to report on the same tree:
        # then the violation is the verdict (exit 1) and the analysis errors are printed next to it
        errors = []
        for rule in list(spec["rules"]) + (list(spec.get("thorough", [])) if args.tier == "thorough" else []):
            try:
                rule(ctx)
            except P.AnalysisError as e:
                errors.append(str(e))
        if errors and not ctx.has_new_violation():
            print(f"ANALYSIS-ERROR property={args.prop}: {errors[0]}")
            return 2
        for e in errors:
            print(f"ANALYSIS-ERROR (next to the violations below) property={args.prop}: {e}")
        return finish(ctx, spec["explanation"])
    except P.AnalysisError as e:
        print(f"ANALYSIS-ERROR property={args.prop}: {e}")
        return 2
    except Exception as e:  # never let a traceback look like a violation
        print(f"ANALYSIS-ERROR property={args.prop}: internal error {type(e).__name__}: {e}")
        traceback.print_exc(file=sys.stdout)
        return 2


if __name__ == "__main__":
    sys.exit(main())
