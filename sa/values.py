"""Non-term values manipulated by the extractor, and records it produces."""
from __future__ import annotations

import ast
from dataclasses import dataclass, field
from typing import Any, Dict, List, Optional, Tuple

from .terms import show


class Item:
    __slots__ = ("value", "loops", "guards")

    def __init__(self, value, loops=(), guards=()):
        self.value = value
        self.loops = tuple(loops)
        self.guards = tuple(guards)


class PyList:
    """python list under construction (identity semantics)"""

    def __init__(self, items=None, base_loops=(), base_guards=(), origin=None):
        self.items: List[Item] = list(items or [])
        self.base_loops = tuple(base_loops)
        self.base_guards = tuple(base_guards)
        self.origin = origin

    def plain(self) -> bool:
        return all(not it.loops and not it.guards for it in self.items)


class PyDict:
    def __init__(self, base_loops=(), base_guards=(), origin=None):
        self.entries: List[Tuple[Any, Any, tuple, tuple]] = []   # key, value, loops, guards
        self.base_loops = tuple(base_loops)
        self.base_guards = tuple(base_guards)
        self.origin = origin


@dataclass
class Closure:
    fn: ast.AST                 # FunctionDef or Lambda
    module: Any
    env: Dict[str, Any]
    self_obj: Any = None
    cls: Any = None             # ClassInfo where the function is defined (for super())
    qual: str = ""
    outer: Any = ()             # the environments enclosing the defining frame (a function defined inside a nested function)


@dataclass
class BoundMethod:
    recv: Any
    owner: Any                  # ClassInfo that defines fn
    fn: ast.FunctionDef
    static_cls: Any = None      # ClassInfo of the receiver (most derived known)


@dataclass
class ClassRef:
    cls: Any


@dataclass
class ModuleRef:
    name: str


@dataclass
class ExtRef:
    dotted: str


@dataclass
class BuiltinMethod:
    recv: Any
    name: str


@dataclass
class SuperRef:
    self_obj: Any
    after: Any                  # ClassInfo
    static_cls: Any


@dataclass
class Site:
    module: str
    func: str
    lineno: int

    def __str__(self):
        return f"processscheduler/{self.module}.py:{self.lineno} ({self.func})"


@dataclass
class Emission:
    owner: tuple               # term of the object whose assertion list receives the term
    sink: str                  # append_z3_assertion | append_z3_list_of_assertions
    term: tuple
    guards: tuple              # residual python-level guards (terms)
    loops: tuple               # loop descriptors the emission sits in
    site: Site
    stack: Tuple[Site, ...] = ()
    via: Tuple[str, ...] = ()  # names of repo functions inlined on the way (set_z3_assertions, set_assertions...)

    def describe(self):
        g = (" if " + " and ".join(show(x) for x in self.guards)) if self.guards else ""
        l = (" for " + ", ".join(show(x) for x in self.loops)) if self.loops else ""
        return f"{show(self.owner)} <- {show(self.term)}{l}{g}"


@dataclass
class Event:
    kind: str                  # raise | mcall | call | store | setattr | new | z3opt | return | chained-compare | unknown
    data: dict
    guards: tuple
    loops: tuple
    site: Site
    stack: Tuple[Site, ...] = ()


@dataclass
class Run:
    entry: str
    config_key: str
    decisions: List[Tuple[str, bool]]
    domains: Dict[str, str]
    doms: dict
    emissions: List[Emission]
    events: List[Event]
    retval: Any
    rejected: bool             # path ended in a config-level raise
    reject_info: Optional[dict]
    heap: dict
    env: dict
    unknowns: List[str]

    def events_of(self, kind):
        return [e for e in self.events if e.kind == kind]
