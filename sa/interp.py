"""E2 (part 2): statements, calls, loops and the path driver of the encoder-IR extractor."""
from __future__ import annotations

import ast
from dataclasses import dataclass, field
from typing import Any, Dict, List, Optional, Set, Tuple

from . import project as P
from .config import Config, PathOracle, next_prefix
from .interp_expr import ExprMixin, UNBOUND, Z3_OPS, Z3_VARIADIC, Z3_CONSTS, Z3_FRESH
from .terms import K, TRUE, FALSE, NONE, app, is_app, is_const, show, mkphi
from .values import (Item, PyList, PyDict, Closure, BoundMethod, ClassRef, ModuleRef, ExtRef, BuiltinMethod,
                     SuperRef, Site, Emission, Event, Run)


class _Return(Exception):
    def __init__(self, value):
        self.value = value


class _Raise(Exception):
    def __init__(self, info):
        self.info = info


class _LoopExit(Exception):
    def __init__(self, kind):
        self.kind = kind


class PathLimit(Exception):
    pass


@dataclass
class Frame:
    module: Any
    qual: str
    env: Dict[str, Any]
    self_obj: Any = None
    cls: Any = None
    static_cls: Any = None
    closure_envs: List[Dict[str, Any]] = field(default_factory=list)
    returns: List[Tuple[tuple, Any]] = field(default_factory=list)
    base_guards: int = 0
    base_loops: int = 0
    base_kills: int = 0
    call_site: Optional[Site] = None
    yields: Any = None          # generator function: the list of what it yields, in order


def _is_generator_body(body) -> bool:
    """a yield in the body itself (not in a nested function or lambda)"""
    stack = list(body)
    while stack:
        n = stack.pop()
        if isinstance(n, (ast.Yield, ast.YieldFrom)):
            return True
        if isinstance(n, (ast.FunctionDef, ast.AsyncFunctionDef, ast.Lambda, ast.ClassDef)):
            continue
        stack.extend(ast.iter_child_nodes(n))
    return False


SINKS = {"append_z3_assertion", "append_z3_list_of_assertions"}
SINK_OWNER_CLASS = "NamedUIDObject"
PURE_EXT = {"builtins.print", "warnings.warn"}


class Interp(ExprMixin):
    def __init__(self, project: P.Project, config: Config, opaque: Set[str] = (), max_depth: int = 8,
                 top_cls: Optional[P.ClassInfo] = None):
        self.project = project
        self.config = config
        self.opaque = set(opaque)
        self.max_depth = max_depth
        self.top_cls = top_cls
        self.heap: Dict[Tuple[tuple, str], Any] = {}
        self.guards: List[tuple] = []
        self.kills: List[tuple] = []          # negated conjunctions added by residual return/continue
        self.loops: Tuple[tuple, ...] = ()
        self.frames: List[Frame] = []
        self.closure_frames: Dict[str, dict] = {}   # qualified closure name -> environment of its last call
        self.emissions: List[Emission] = []
        self.events: List[Event] = []
        self.unknowns: List[str] = []
        self.symtypes: Dict[str, tuple] = {}
        self.static_syms: Set[str] = set()
        if not hasattr(project, "_ptype_cache"):
            project._ptype_cache = {}
        self._ptype_cache = project._ptype_cache
        self._loop_counter = 0
        self._obj_counter = 0
        self._via: List[str] = []

    # ------------------------------------------------------------------
    @property
    def frame(self) -> Frame:
        return self.frames[-1]

    def site(self, node) -> Site:
        return Site(self.frame.module.short, self.frame.qual, getattr(node, "lineno", 0) if node is not None else 0)

    def stack(self) -> Tuple[Site, ...]:
        return tuple(f.call_site for f in self.frames if f.call_site is not None)

    def eff_guards(self) -> tuple:
        return tuple(self.guards) + tuple(self.kills)

    def unknown(self, what, node=None):
        s = f"{self.site(node) if node is not None else self.frame.qual}: {what}"
        if s not in self.unknowns:
            self.unknowns.append(s)

    def event(self, kind, data, node):
        self.events.append(Event(kind, data, self.eff_guards(), self.loops, self.site(node), self.stack()))

    def new_loop(self, kind, iterable, node):
        self._loop_counter += 1
        # iterating over a list element by element is not an aggregate read of it (no 'prefix-read' event)
        self._quiet_reads = getattr(self, "_quiet_reads", 0) + 1
        try:
            it_term = self.ref_term(iterable)
        finally:
            self._quiet_reads -= 1
        # iterating over list(X) / tuple(X) is iterating over X
        while isinstance(it_term, tuple) and len(it_term) == 4 and it_term[0] == "call" and it_term[1] in ("list", "tuple") \
                and len(it_term[2]) == 1 and not it_term[3]:
            it_term = it_term[2][0]
        return ("loop", self._loop_counter, kind, it_term)

    # ------------------------------------------------------------------
    # statements
    # ------------------------------------------------------------------
    def exec_block(self, stmts) -> Optional[str]:
        """returns the kind of terminator when the block always ends in one under the
        current (residual) guards: 'raise' | 'return' | 'continue' | 'break' | None"""
        for st in stmts:
            term = self.exec_stmt(st)
            if term is not None:
                return term
        return None

    def exec_stmt(self, st) -> Optional[str]:
        m = getattr(self, "s_" + type(st).__name__, None)
        if m is None:
            self.unknown(f"statement {type(st).__name__}", st)
            return None
        return m(st)

    def s_Pass(self, st):
        return None

    def s_Import(self, st):
        return None

    def s_ImportFrom(self, st):
        """a local `from m import f` of something outside the package binds f to the external m.f (imports of the package's own
        modules keep going through the project's name resolution)"""
        if st.level == 0 and st.module and not st.module.startswith("processscheduler"):
            for al in st.names:
                if al.name != "*":
                    self.frame.env[al.asname or al.name] = ExtRef(f"{st.module}.{al.name}")
        return None

    s_Global = s_Import
    s_Nonlocal = s_Import

    def s_Expr(self, st):
        if isinstance(st.value, ast.Constant):
            return None
        self.eval(st.value)
        return None

    def s_Assert(self, st):
        return None

    def s_Delete(self, st):
        return None

    def s_Assign(self, st):
        v = self.eval(st.value)
        for tg in st.targets:
            self.assign(tg, v, st)
        return None

    def s_AnnAssign(self, st):
        if st.value is not None:
            self.assign(st.target, self.eval(st.value), st)
        return None

    def s_AugAssign(self, st):
        op = {ast.Add: "+", ast.Sub: "-", ast.Mult: "*", ast.Div: "/", ast.FloorDiv: "//", ast.Mod: "%"}.get(type(st.op), "?")
        cur = self.eval(st.target) if not isinstance(st.target, ast.Name) or st.target.id in self.frame.env \
            else ("unk", "augassign of unbound")
        rhs = self.eval(st.value)
        if op == "+" and isinstance(cur, PyList):
            self._extend(cur, rhs, st)          # in place, as python does for lists
            return None
        self.assign(st.target, self.binop(op, cur, rhs, st), st)
        return None

    def assign(self, tg, v, st):
        if isinstance(tg, ast.Name):
            self.frame.env[tg.id] = v
        elif isinstance(tg, (ast.Tuple, ast.List)):
            self.destructure(tg, v, st)
        elif isinstance(tg, ast.Attribute):
            base = self.to_term(self.eval(tg.value))
            if isinstance(v, (PyList, PyDict)) and v.origin is None:
                v.origin = ("attr", base, tg.attr)
            self.heap[(base, tg.attr)] = v
            self.event("setattr", {"obj": base, "attr": tg.attr, "value": self.to_term(v)}, st)
        elif isinstance(tg, ast.Subscript):
            base = self.eval(tg.value)
            if isinstance(tg.slice, ast.Slice):
                if isinstance(base, (PyList, PyDict)):
                    self.unknown("slice assignment", st)        # a list known item by item: not modelled
                    return
                # a sequence that is not built here (a parameter, an attribute) is modified in place: recorded as a store
                self.event("store", {"container": self.to_term(base), "key": ("slice",) + tuple(self.to_term(self.eval(x_)) if x_ is not None else NONE
                                                                                                   for x_ in (tg.slice.lower, tg.slice.upper, tg.slice.step)),
                                     "value": self.to_term(v)}, st)
                return
            idx = self.to_term(self.eval(tg.slice))
            self.store_item(base, idx, v, st)
        elif isinstance(tg, ast.Starred):
            self.unknown("starred assignment", st)
        else:
            self.unknown(f"assignment target {type(tg).__name__}", st)

    def store_item(self, base, idx, v, st):
        rel_loops = self._rel_loops(base)
        rel_guards = self._rel_guards(base)
        if isinstance(base, PyDict):
            base.entries.append((idx, v, rel_loops, rel_guards))
            self.event("store", {"container": self.ref_term(base), "key": idx, "value": self.to_term(v)}, st)
            return
        if isinstance(base, PyList):
            if base.plain() and is_const(idx) and isinstance(idx[1], int) and not rel_loops and not rel_guards \
                    and -len(base.items) <= idx[1] < len(base.items):
                base.items[idx[1]] = Item(v)
            else:
                # element overwritten at a symbolic position: the list is no longer known item by item
                snap = self.to_term(base)
                base.items = [Item(("listupd", snap, idx, self.to_term(v)), (), ())]
                base.items[0].loops = ()
                self.event("store", {"container": self.ref_term(base), "key": idx, "value": self.to_term(v)}, st)
            return
        self.event("store", {"container": self.to_term(base), "key": idx, "value": self.to_term(v)}, st)

    def _rel_loops(self, container):
        base = getattr(container, "base_loops", ())
        n = 0
        while n < len(base) and n < len(self.loops) and base[n] == self.loops[n]:
            n += 1
        return self.loops[n:]

    def _rel_guards(self, container):
        base = getattr(container, "base_guards", ())
        cur = self.eff_guards()
        n = 0
        while n < len(base) and n < len(cur) and base[n] == cur[n]:
            n += 1
        return cur[n:]

    def destructure(self, tg, v, st):
        n = len(tg.elts)
        vt = v if isinstance(v, PyList) else self.to_term(v)
        comps = None
        if isinstance(vt, PyList) and vt.plain() and len(vt.items) == n:
            comps = [i.value for i in vt.items]
        elif isinstance(vt, tuple) and vt[0] in ("tuple", "list") and len(vt[1]) == n and \
                all(not (isinstance(i, tuple) and i and i[0] == "each") for i in vt[1]):
            comps = list(vt[1])
        if comps is None:
            vt = self.to_term(vt)
            comps = [self.subscript(vt, K(i)) for i in range(n)]
        for e, c in zip(tg.elts, comps):
            self.assign(e, c, st)

    def s_Return(self, st):
        v = self.eval(st.value) if st.value is not None else NONE
        fr = self.frame
        rel = tuple(self.guards[fr.base_guards:])
        in_loop = len(self.loops) > fr.base_loops
        if not rel and not in_loop and len(self.kills) == fr.base_kills:
            raise _Return(v)
        fr.returns.append((self.eff_guards()[fr.base_guards:], v))
        self.event("return", {"value": self.to_term(v)}, st)
        if rel:
            self.kills.append(app("not", self._conj(rel)))
        return "return"

    def _conj(self, gs):
        gs = list(gs)
        if len(gs) == 1:
            return gs[0]
        return app("and*", *gs)

    def s_Raise(self, st):
        exc = self.to_term(self.eval(st.exc)) if st.exc is not None else NONE
        info = {"exc": exc, "site": self.site(st), "src": ast.unparse(st.exc)[:120] if st.exc is not None else ""}
        residual = bool(self.guards) or bool(self.loops) or bool(self.kills)
        if not residual:
            raise _Raise(info)
        self.event("raise", info, st)
        return "raise"

    def s_Continue(self, st):
        return self._loop_exit("continue", st)

    def s_Break(self, st):
        return self._loop_exit("break", st)

    def _loop_exit(self, kind, st):
        rel = tuple(self.guards[self._loop_guard_base[-1]:]) if self._loop_guard_base else ()
        self.event(kind, {"loop": self.loops[-1] if self.loops else None}, st)
        if rel:
            self.kills.append(app("not", self._conj(rel)))
        return kind

    _loop_guard_base: List[int] = []

    def s_If(self, st):
        c = self.eval(st.test)
        t = self.truth(c)
        if t is True:
            return self.exec_block(st.body)
        if t is False:
            return self.exec_block(st.orelse)
        g = self.guard_term(c)
        return self._branch(g, lambda: self.exec_block(st.body), lambda: self.exec_block(st.orelse))

    def _branch(self, g, then_fn, else_fn):
        """run two continuations under g / not g and merge environment and heap"""
        env0, heap0 = self.frame.env, self.heap
        # then branch
        self.frame.env, self.heap = dict(env0), dict(heap0)
        self.guards.append(g)
        nk = len(self.kills)
        term_a = then_fn()
        kills_a = self.kills[nk:]
        del self.kills[nk:]
        env_a, heap_a = self.frame.env, self.heap
        # else branch
        self.frame.env, self.heap = dict(env0), dict(heap0)
        self.guards[-1] = app("not", g)
        term_b = else_fn()
        kills_b = self.kills[nk:]
        del self.kills[nk:]
        env_b, heap_b = self.frame.env, self.heap
        self.guards.pop()
        # kills survive the branch (they are already conjunctions including g / not g)
        self.kills.extend(kills_a + kills_b)
        if term_a is not None and term_b is not None:
            self.frame.env, self.heap = env_b, heap_b
            return term_a if term_a == term_b else "raise" if "raise" in (term_a, term_b) and False else term_a
        if term_a is not None:
            self.frame.env, self.heap = env_b, heap_b
            return None
        if term_b is not None:
            self.frame.env, self.heap = env_a, heap_a
            return None
        self.frame.env = self._merge(g, env_a, env_b)
        self.heap = self._merge(g, heap_a, heap_b)
        return None

    def _merge(self, g, a: dict, b: dict) -> dict:
        out = {}
        for k in list(a.keys()) + [k for k in b.keys() if k not in a]:
            va, vb = a.get(k, UNBOUND), b.get(k, UNBOUND)
            if va is vb:
                out[k] = va
                continue
            ta, tb = self.to_term(va), self.to_term(vb)
            if ta == tb and not isinstance(va, (PyList, PyDict)):
                out[k] = va
            else:
                out[k] = mkphi(g, ta, tb)
        return out

    # -- loops -----------------------------------------------------------------
    def normalize_iteration(self, it, target, reader_nodes):
        """one spelling for the ways of walking a dict: (iterable, target, keyed)
        - `for key, v in d.items()` whose key is never read is `for v in d.values()`;
        - `for k, v in self.<declared Dict field>.items()` is `for k in self.<field>` with v = self.<field>[k]
          (keyed = (field term, target) tells the caller to bind the two names itself)"""
        while isinstance(it, tuple) and len(it) == 4 and it[0] == "call" and it[1] in ("list", "tuple") and len(it[2]) == 1 and not it[3]:
            it = it[2][0]           # iterating over list(X) is iterating over X
        if isinstance(it, tuple) and len(it) == 4 and it[0] == "call" and it[1] in ("itertools.chain", "chain") and it[2] and not it[3]:
            # itertools.chain(a, b, ...) walks a + b + ...
            acc = it[2][0]
            for part in it[2][1:]:
                acc = app("+", acc, part)
            it = acc
        itt = it if isinstance(it, tuple) else None
        if itt is not None and itt[0] == "mcall" and itt[2] == "items" and not itt[3] and isinstance(target, (ast.Tuple, ast.List)) \
                and len(target.elts) == 2 and isinstance(target.elts[0], ast.Name):
            key = target.elts[0].id
            reads = [n for b in reader_nodes for n in ast.walk(b) if isinstance(n, ast.Name) and n.id == key
                     and isinstance(n.ctx, ast.Load)]
            if not reads:
                it = ("mcall", itt[1], "values", (), ())
                target = target.elts[1]
        keyed = None
        itt = it if isinstance(it, tuple) else None
        if itt is not None and itt[0] == "mcall" and itt[2] == "items" and not itt[3] and isinstance(target, (ast.Tuple, ast.List)) \
                and len(target.elts) == 2 and isinstance(itt[1], tuple) and itt[1] and itt[1][0] == "attr" \
                and not itt[1][2].startswith("_"):
            ty = self.typeof(itt[1])
            if ty is not None and all(a[0] == "dict" for a in P.type_alternatives(ty)):
                keyed = (itt[1], target)
                it = itt[1]
        return it, target, keyed

    _NO_ITER = object()

    def s_For(self, st, it=_NO_ITER):
        if it is Interp._NO_ITER and isinstance(st.iter, ast.Call) and ast.unparse(st.iter.func) in ("itertools.product", "product") \
                and len(st.iter.args) >= 2 and not st.iter.keywords and not any(isinstance(a, ast.Starred) for a in st.iter.args) \
                and isinstance(st.target, (ast.Tuple, ast.List)) and len(st.target.elts) == len(st.iter.args) and not st.orelse:
            # for a, b in itertools.product(A, B): BODY   is   for a in A: for b in B: BODY
            inner_body = st.body
            for tgt, src in reversed(list(zip(st.target.elts, st.iter.args))):
                loop_node = ast.For(target=tgt, iter=src, body=inner_body, orelse=[])
                ast.copy_location(loop_node, st)
                ast.fix_missing_locations(loop_node)
                inner_body = [loop_node]
            return self.s_For(inner_body[0])
        if it is Interp._NO_ITER:
            it = self.eval(st.iter)
        if it == UNBOUND:
            return None          # the alternative in which the iterable was never bound: nothing to walk
        if isinstance(it, tuple) and it and it[0] == "phi" and len(it) == 4:
            # the iterable was chosen by a conditional: the loop over each alternative, under its condition
            return self._branch(it[1], lambda: self.s_For(st, it[2]), lambda: self.s_For(st, it[3]))
        items = self._known_items(it)
        if items is not None:
            # the iterable is a list whose items are known from the source: the body is
            # translated once per written item (an item produced inside a loop keeps that loop)
            for val, loops, guards in items:
                if not loops and not guards:
                    self.assign(st.target, val, st)
                    term = self.exec_block(st.body)
                    continue
                nl, ng = len(self.loops), len(self.guards)
                self.loops = self.loops + tuple(loops)
                self.guards.extend(guards)
                self._loop_guard_base = self._loop_guard_base + [len(self.guards)]
                nk = len(self.kills)
                try:
                    self.assign(st.target, val, st)
                    self.exec_block(st.body)
                finally:
                    self.loops = self.loops[:nl]
                    del self.guards[ng:]
                    self._loop_guard_base = self._loop_guard_base[:-1]
                    del self.kills[nk:]
            if st.orelse:
                self.exec_block(st.orelse)
            return None
        it, target, keyed = self.normalize_iteration(it, st.target, st.body + st.orelse)
        itc = it if isinstance(it, tuple) else None
        if itc is not None and itc[0] == "call" and itc[1] in ("itertools.combinations", "combinations") and len(itc[2]) == 2 \
                and itc[2][1] == K(2) and isinstance(target, (ast.Tuple, ast.List)) and len(target.elts) == 2:
            # itertools.combinations(X, 2): the unordered pairs (X[i], X[k]), i < k - one spelling with the index loops
            # `for i in range(len(X)): for k in range(i + 1, len(X))`
            X = itc[2][0]
            n = ("call", "len", (X,), ())
            outer = self.new_loop("for", ("range", K(0), n), st)
            names = [nm.id for nm in ast.walk(target) if isinstance(nm, ast.Name)]

            def inner_body():
                inner = self.new_loop("for", ("range", app("+", ("elem", outer), K(1)), n), st)
                self._run_loop(st, inner, inner[3], None,
                               pre_bind=lambda: (self.assign(target.elts[0], ("idx", X, ("elem", outer)), target),
                                                 self.assign(target.elts[1], ("idx", X, ("elem", inner)), target)),
                               extra_assigned=names)
            self._run_loop(st, outer, outer[3], None, extra_assigned=names, body_fn=inner_body)
            if st.orelse:
                self.exec_block(st.orelse)
            return None
        if itc is not None and itc[0] == "call" and itc[1] == "enumerate" and isinstance(target, (ast.Tuple, ast.List)) \
                and len(target.elts) == 2 and ((len(itc[2]) == 2 and not itc[3]) or (len(itc[2]) == 1 and len(itc[3]) == 1 and itc[3][0][0] == "start")) \
                and isinstance(itc[2][0], tuple) and itc[2][0] and (itc[2][0][0] in ("sym", "attr", "idx") or itc[2][0][:2] in (("call", "list"), ("call", "tuple"))):
            # for p, x in enumerate(X, start=c): the index loop `for i in range(len(X)): p = i + c; x = X[i]`
            X = itc[2][0]
            c = itc[2][1] if len(itc[2]) == 2 else itc[3][0][1]
            loop = self.new_loop("for", ("range", K(0), ("call", "len", (X,), ())), st)
            self._run_loop(st, loop, loop[3], None,
                           pre_bind=lambda: (self.assign(target.elts[0], app("+", ("elem", loop), c), target),
                                             self.assign(target.elts[1], ("idx", X, ("elem", loop)), target)),
                           extra_assigned=[n_.id for n_ in ast.walk(target) if isinstance(n_, ast.Name)])
            if st.orelse:
                self.exec_block(st.orelse)
            return None
        fw_ = self._forward_slice_as_range(it)
        if fw_ is not None:
            # for v in X[a:]: the index loop `for i in range(a, len(X)): v = X[i]`
            rng_, base_ = fw_
            loop = self.new_loop("for", rng_, st)
            self._run_loop(st, loop, rng_, None, pre_bind=lambda: self.assign(target, ("idx", base_, ("elem", loop)), st),
                           extra_assigned=[n_.id for n_ in ast.walk(target) if isinstance(n_, ast.Name)])
            if st.orelse:
                self.exec_block(st.orelse)
            return None
        rv_ = self._reversed_slice_as_range(it)
        if rv_ is not None:
            # for v in X[a::-1]: the index loop `for i in range(a, -1, -1): v = X[i]` - one spelling for walking a sequence backwards
            rng_, base_ = rv_
            loop = self.new_loop("for", rng_, st)
            self._run_loop(st, loop, rng_, None, pre_bind=lambda: self.assign(target, ("idx", base_, ("elem", loop)), st),
                           extra_assigned=[n_.id for n_ in ast.walk(target) if isinstance(n_, ast.Name)])
            if st.orelse:
                self.exec_block(st.orelse)
            return None
        z = self.zip_as_range(self.ref_term(it) if not isinstance(it, tuple) else it)
        if z is not None:
            it = z[0]
        loop = self.new_loop("for", it, st)
        if z is not None:
            if not hasattr(self, "_zip_loops"):
                self._zip_loops = {}
            self._zip_loops[loop[1]] = z[1]
        if keyed is not None:
            fld, tgt = keyed
            self._run_loop(st, loop, it, None,
                           pre_bind=lambda: (self.assign(tgt.elts[0], ("elem", loop), tgt),
                                             self.assign(tgt.elts[1], ("idx", fld, ("elem", loop)), tgt)),
                           extra_assigned=[n.id for n in ast.walk(tgt) if isinstance(n, ast.Name)])
        else:
            self._run_loop(st, loop, it, target)
        if st.orelse:
            self.exec_block(st.orelse)
        return None

    def _known_items(self, it):
        if isinstance(it, PyList):
            return [(i.value, i.loops, i.guards) for i in it.items]
        if isinstance(it, tuple) and it and it[0] in ("list", "tuple"):
            out = []
            for x in it[1]:
                if isinstance(x, tuple) and x and x[0] == "each":
                    out.append((x[3], x[1], x[2]))
                else:
                    out.append((x, (), ()))
            return out
        return None

    def s_While(self, st):
        # `while X: v = X.pop(0); BODY` (X a local name BODY never mentions) walks X from the front and leaves it empty:
        # `for v in X: BODY`, then X = [] - one spelling
        if isinstance(st.test, ast.Name) and st.body and not st.orelse and isinstance(st.body[0], ast.Assign) \
                and len(st.body[0].targets) == 1 and isinstance(st.body[0].value, ast.Call) \
                and isinstance(st.body[0].value.func, ast.Attribute) and st.body[0].value.func.attr == "pop" \
                and isinstance(st.body[0].value.func.value, ast.Name) and st.body[0].value.func.value.id == st.test.id \
                and len(st.body[0].value.args) == 1 and isinstance(st.body[0].value.args[0], ast.Constant) and st.body[0].value.args[0].value == 0 \
                and not st.body[0].value.keywords and st.test.id in self.frame.env \
                and not any(isinstance(n_, ast.Name) and n_.id == st.test.id for b_ in st.body[1:] for n_ in ast.walk(b_)) \
                and not any(isinstance(n_, ast.Name) and n_.id == st.test.id for n_ in ast.walk(st.body[0].targets[0])) \
                and not any(isinstance(n_, (ast.Break,)) for b_ in st.body for n_ in ast.walk(b_)):
            loop_node = ast.For(target=st.body[0].targets[0], iter=st.test, body=st.body[1:] or [ast.Pass()], orelse=[])
            ast.copy_location(loop_node, st)
            ast.fix_missing_locations(loop_node)
            out = self.s_For(loop_node)
            self.frame.env[st.test.id] = PyList(base_loops=self.loops, base_guards=self.eff_guards())
            return out
        loop = self.new_loop("while", self.to_term(self.eval(st.test)), st)
        self._run_loop(st, loop, None, None)
        return None

    def _assigned_names(self, stmts) -> List[str]:
        names = []
        for s in stmts:
            for n in ast.walk(s):
                if isinstance(n, ast.Name) and isinstance(n.ctx, ast.Store) and n.id not in names:
                    names.append(n.id)
        return names

    def _read_before_write(self, stmts, name) -> bool:
        """does the loop body (linear order, conservative) read `name` before assigning it"""
        class V(ast.NodeVisitor):
            def __init__(s):
                s.result = None

            def visit_Assign(s, n):
                s.visit(n.value)
                for t in n.targets:
                    s.visit(t)

            def visit_AugAssign(s, n):
                if isinstance(n.target, ast.Name) and n.target.id == name and s.result is None:
                    s.result = True
                s.visit(n.value)
                s.visit(n.target)

            def visit_For(s, n):
                s.visit(n.iter)
                s.visit(n.target)
                for b in n.body + n.orelse:
                    s.visit(b)

            def visit_Name(s, n):
                if n.id == name and s.result is None:
                    s.result = isinstance(n.ctx, ast.Load)

        v = V()
        for s in stmts:
            v.visit(s)
        return bool(v.result)

    _MUTATORS = ("append", "extend", "add", "insert", "update", "setdefault", "pop", "remove", "clear", "discard")

    def _mutated_names(self, stmts) -> List[str]:
        """local names whose container is modified in place somewhere in the statements (X.append(..), X[k] = v, X += ..)"""
        names = []
        for s in stmts:
            for n in ast.walk(s):
                nm = None
                if isinstance(n, ast.Call) and isinstance(n.func, ast.Attribute) and n.func.attr in self._MUTATORS \
                        and isinstance(n.func.value, ast.Name):
                    nm = n.func.value.id
                elif isinstance(n, ast.Subscript) and isinstance(n.ctx, ast.Store) and isinstance(n.value, ast.Name):
                    nm = n.value.id
                elif isinstance(n, ast.AugAssign) and isinstance(n.target, ast.Name):
                    nm = n.target.id
                if nm is not None and nm not in names:
                    names.append(nm)
        return names

    def _mutated_attribute_containers(self, stmts):
        """attribute expressions (`a.b`, `self.c.d`) whose container is modified in place somewhere in the statements, when
        every name they start from is bound outside (no store of the root name inside the statements)"""
        stored = set(self._assigned_names(stmts))
        out, seen = [], set()
        for s in stmts:
            for n in ast.walk(s):
                tgt = None
                if isinstance(n, ast.Call) and isinstance(n.func, ast.Attribute) and n.func.attr in self._MUTATORS \
                        and isinstance(n.func.value, ast.Attribute):
                    tgt = n.func.value
                elif isinstance(n, ast.Subscript) and isinstance(n.ctx, ast.Store) and isinstance(n.value, ast.Attribute):
                    tgt = n.value
                if tgt is None:
                    continue
                root = tgt
                while isinstance(root, ast.Attribute):
                    root = root.value
                if not isinstance(root, ast.Name) or root.id in stored:
                    continue
                key = ast.unparse(tgt)
                if key not in seen:
                    seen.add(key)
                    out.append(tgt)
        return out

    def grown_in_running_loop(self, v):
        """(name, loop) when `v` is a container that existed before a loop that is still running and is modified in place in
        its body: what python reads there is the state after the iterations so far, not the value the extractor holds"""
        for obj, loop, name in getattr(self, "_growing", ()):
            if obj is v and loop in self.loops:
                return name, loop
        return None

    def _run_loop(self, st, loop, it, target, pre_bind=None, extra_assigned=(), body_fn=None):
        env = self.frame.env
        if not hasattr(self, "_growing"):
            self._growing = []
        n_growing = len(self._growing)
        for nm in self._mutated_names(st.body):
            if isinstance(env.get(nm), (PyList, PyDict)):
                self._growing.append((env[nm], loop, nm))
        # the same for containers held in attributes (`self.x.append(..)`, `obj.items[k] = v`) that exist before the loop
        for expr in self._mutated_attribute_containers(st.body):
            n_ev, n_unk = len(self.events), len(self.unknowns)
            self._quiet_reads = getattr(self, "_quiet_reads", 0) + 1
            try:
                held = self.eval(expr)
            except Exception:
                held = None
            finally:
                self._quiet_reads -= 1
                del self.events[n_ev:]
                del self.unknowns[n_unk:]
            if isinstance(held, (PyList, PyDict)) and not any(o is held for o, _l, _n in self._growing[n_growing:]):
                self._growing.append((held, loop, ast.unparse(expr)))
        assigned = self._assigned_names(st.body)
        for n_ in extra_assigned:
            if n_ not in assigned:
                assigned.append(n_)
        if target is not None:
            for n in ast.walk(target):
                if isinstance(n, ast.Name) and n.id not in assigned:
                    assigned.append(n.id)
        before = {n: env[n] for n in assigned if n in env}
        for n, init in before.items():
            if isinstance(init, (PyList, PyDict)):
                continue
            if self._read_before_write(st.body, n):
                env[n] = ("carried", n, loop, self.to_term(init))
        heap_before = dict(self.heap)
        self.loops = self.loops + (loop,)
        self._loop_guard_base = self._loop_guard_base + [len(self.guards)]
        nk = len(self.kills)
        if target is not None:
            self.bind_loop_target(target, loop, it)
        if pre_bind is not None:
            pre_bind()
        n_events = len(self.events)
        n_guards_at_entry = len(self.guards) + nk
        try:
            if body_fn is not None:
                body_fn()
            else:
                self.exec_block(st.body)
        finally:
            self.loops = self.loops[:-1]
            self._loop_guard_base = self._loop_guard_base[:-1]
            del self.kills[nk:]
            del self._growing[n_growing:]
        # `for e in xs: if not P(e): raise` - on every normal completion P holds for every element: an item collected in
        # this loop under the guard P(e) is collected unconditionally
        facts = []
        for ev in self.events[n_events:]:
            if ev.kind == "raise" and ev.loops and ev.loops[-1] == loop:
                rel = ev.guards[n_guards_at_entry:] if len(ev.guards) >= n_guards_at_entry else None
                if rel is not None and len(rel) == 1:
                    facts.append(app("not", rel[0]))
        if facts:
            for holder in list(self.frame.env.values()) + list(self.heap.values()):
                if isinstance(holder, PyList):
                    for item in holder.items:
                        if loop in item.loops and item.guards:
                            item.guards = tuple(g for g in item.guards if g not in facts)
        env = self.frame.env
        for n in assigned:
            if n not in env:
                continue
            bodyval = env[n]
            init = before.get(n, UNBOUND)
            if bodyval is init:
                continue
            if isinstance(bodyval, (PyList, PyDict)) and n in before and bodyval is before[n]:
                continue
            env[n] = ("loopout", n, loop, self.to_term(init), self.to_term(bodyval))
        # attributes assigned in the loop
        for k, v in list(self.heap.items()):
            if k not in heap_before or heap_before[k] is not v:
                if isinstance(v, (PyList, PyDict)):
                    continue
                init = heap_before.get(k, UNBOUND)
                self.heap[k] = ("loopout", k[1], loop, self.to_term(init), self.to_term(v))

    def _forward_slice_as_range(self, it):
        """X[a:] with a known to be non-negative (a constant, or positions of index loops that start at 0 or later plus a
        non-negative constant) as (range(a, len(X)), X)"""
        from .decide import lin, norm
        t = it if isinstance(it, tuple) else None
        if t is None or len(t) != 3 or t[0] != "idx" or not (isinstance(t[2], tuple) and t[2] and t[2][0] == "slice"):
            return None
        lo, hi, st_ = t[2][1], t[2][2], t[2][3]
        if hi != NONE or st_ not in (NONE, K(1)) or lo == NONE or not isinstance(t[1], tuple) \
                or not (t[1][0] in ("sym", "attr") or t[1][:2] in (("call", "list"), ("call", "tuple"))):
            return None
        try:
            l = lin(norm(lo))
        except Exception:
            return None
        if l.const < 0:
            return None
        for term, coef in l.coef.items():
            ok = coef > 0 and isinstance(term, tuple) and term[0] == "elem" and isinstance(term[1], tuple) and term[1][0] == "loop" \
                and isinstance(term[1][3], tuple) and term[1][3][0] == "range" and is_const(term[1][3][1]) \
                and isinstance(term[1][3][1][1], int) and term[1][3][1][1] >= 0 and (len(term[1][3]) == 3 or term[1][3][3] == K(1))
            if not ok:
                return None
        return ("range", lo, ("call", "len", (t[1],), ())), t[1]

    def _reversed_slice_as_range(self, it):
        """X[a:b:-1] (a, b integer constants or absent) as (range(a', b', -1), X): a' = a (len + a when negative, len - 1 when
        absent), b' = b (len + b when negative, -1 when absent)"""
        t = it if isinstance(it, tuple) else None
        if t is not None and len(t) == 4 and t[:2] == ("call", "reversed") and len(t[2]) == 1 and not t[3]:
            # reversed(X[a:b]) (a, b integer constants or absent) walks the positions b' - 1 down to a'
            u = t[2][0]
            if isinstance(u, tuple) and len(u) == 3 and u[0] == "idx" and isinstance(u[2], tuple) and u[2] and u[2][0] == "slice" \
                    and u[2][3] in (NONE, K(1)) and isinstance(u[1], tuple) and u[1][0] not in ("call", "mcall"):
                n_ = ("call", "len", (u[1],), ())

                def bound(v, default):
                    if v == NONE:
                        return default
                    if is_const(v) and isinstance(v[1], int):
                        return v if v[1] >= 0 else app("-", n_, K(-v[1]))
                    return None
                a_, b_ = bound(u[2][1], K(0)), bound(u[2][2], n_)
                if a_ is not None and b_ is not None:
                    from .decide import canon_arith
                    return ("range", canon_arith(app("-", b_, K(1))), canon_arith(app("-", a_, K(1))), K(-1)), u[1]
            return None
        if t is None or len(t) != 3 or t[0] != "idx" or not (isinstance(t[2], tuple) and t[2] and t[2][0] == "slice"):
            return None
        lo, hi, st_ = t[2][1], t[2][2], t[2][3]
        if st_ != K(-1) or not isinstance(t[1], tuple) or t[1][0] in ("call", "mcall"):
            return None
        n = ("call", "len", (t[1],), ())

        def pos(v, default):
            if v == NONE:
                return default
            if is_const(v) and isinstance(v[1], int):
                return v if v[1] >= 0 else app("-", n, K(-v[1]))
            return None
        a, b = pos(lo, app("-", n, K(1))), pos(hi, K(-1))
        if a is None or b is None:
            return None
        return ("range", a, b, K(-1)), t[1]

    def zip_as_range(self, it):
        """zip(X, X[1:]) / zip(A, B[k:]) / zip(X[:-1], X[1:]): the position-wise pairs (A[i + ka], B[i + kb]) for i in
        range(0, n) - one spelling with the index loops `for i in range(len(X) - 1): X[i], X[i + 1]`.  n is taken from the
        argument that loses most elements to its slice (zip stops at the shortest argument; arguments are assumed to come
        from lists of equal length - event 'zip-equal-length')"""
        t = it if isinstance(it, tuple) else None
        if t is None or t[:2] != ("call", "zip") or len(t[2]) < 2 or t[3]:
            return None
        comps = []
        for a in t[2]:
            k, m, base = 0, 0, a
            if isinstance(a, tuple) and a and a[0] == "idx" and isinstance(a[2], tuple) and a[2] and a[2][0] == "slice":
                lo, hi, st = a[2][1], a[2][2], a[2][3]
                if st != NONE and st != K(1):
                    return None
                if lo == NONE:
                    k = 0
                elif is_const(lo) and isinstance(lo[1], int) and lo[1] >= 0:
                    k = lo[1]
                else:
                    return None
                if hi == NONE:
                    m = 0
                elif is_const(hi) and isinstance(hi[1], int) and hi[1] < 0:
                    m = -hi[1]
                else:
                    return None
                base = a[1]
            elif isinstance(a, tuple) and a and a[0] in ("call", "mcall") and not (a[0] == "call" and a[1] in ("list", "tuple")):
                return None          # dict views, generators ...: not indexable
            comps.append((base, k, m))
        lose = max(k + m for _, k, m in comps)
        ref = [b for b, k, m in comps if k + m == lose][0]
        n = ("call", "len", (ref,), ())
        if lose:
            n = app("-", n, K(lose))
        if len({repr(b) for b, _, _ in comps}) > 1:
            self.event("zip-equal-length", {"args": tuple(b for b, _, _ in comps)}, None)
        if not any(k or m for _, k, m in comps):
            return None              # plain zip(A, B): kept as it is (the specification rows speak of zip as well)
        return ("range", K(0), n), [(b, k) for b, k, _ in comps]

    def bind_loop_target(self, target, loop, it):
        elem = ("elem", loop)
        itt = loop[3]
        zc = getattr(self, "_zip_loops", {}).get(loop[1])
        if zc is not None:
            vals = [("idx", b, elem if k == 0 else app("+", elem, K(k))) for b, k in zc]
            if isinstance(target, (ast.Tuple, ast.List)) and len(target.elts) == len(vals):
                for e_, v_ in zip(target.elts, vals):
                    self.assign(e_, v_, target)
            else:
                self.assign(target, ("tuple", tuple(vals)), target)
            return
        if isinstance(itt, tuple) and itt and itt[0] == "call" and itt[1] == "enumerate" and isinstance(target, (ast.Tuple, ast.List)) \
                and len(target.elts) == 2:
            self.assign(target.elts[0], ("pos", loop), target)
            self.assign(target.elts[1], ("idx", elem, K(1)), target)
            return
        if isinstance(target, ast.Name):
            self.frame.env[target.id] = elem
        else:
            self.destructure(target, elem, target)

    # -- other compound statements ---------------------------------------------
    def s_With(self, st):
        for item in st.items:
            v = self.eval(item.context_expr)
            if item.optional_vars is not None:
                self.assign(item.optional_vars, ("ctx", self.to_term(v)), st)
        return self.exec_block(st.body)

    def s_Try(self, st):
        term = self.exec_block(st.body)
        for h in st.handlers:
            # handler bodies are translated as alternative continuations under an opaque guard
            g = ("exc", getattr(h, "lineno", 0))
            env0, heap0 = self.frame.env, self.heap
            self.frame.env, self.heap = dict(env0), dict(heap0)
            self.guards.append(g)
            self.exec_block(h.body)
            self.guards.pop()
            self.frame.env = self._merge(g, self.frame.env, env0)
            self.heap = self._merge(g, self.heap, heap0)
        if st.orelse:
            self.exec_block(st.orelse)
        if st.finalbody:
            self.exec_block(st.finalbody)
        return term

    def s_FunctionDef(self, st):
        self.frame.env[st.name] = Closure(st, self.frame.module, self.frame.env, self_obj=self.frame.self_obj,
                                          cls=self.frame.cls, qual=f"{self.frame.qual}.{st.name}",
                                          outer=tuple(self.frame.closure_envs))
        return None

    def s_ClassDef(self, st):
        self.unknown("nested class", st)
        return None

    # ------------------------------------------------------------------
    # list helpers
    # ------------------------------------------------------------------
    def _extend(self, lst: PyList, other, node=None):
        rel_loops, rel_guards = self._rel_loops(lst), self._rel_guards(lst)
        if isinstance(other, PyList):
            for it in other.items:
                lst.items.append(Item(it.value, rel_loops + it.loops, rel_guards + it.guards))
            return
        t = self.to_term(other)
        if t[0] in ("list", "tuple"):
            for x in t[1]:
                if isinstance(x, tuple) and x and x[0] == "each":
                    lst.items.append(Item(x[3], rel_loops + x[1], rel_guards + x[2]))
                else:
                    lst.items.append(Item(x, rel_loops, rel_guards))
            return
        # unknown iterable: one loop over it
        self._loop_counter += 1
        loop = ("loop", self._loop_counter, "spread", t)
        lst.items.append(Item(("elem", loop), rel_loops + (loop,), rel_guards))

    # ------------------------------------------------------------------
    # calls
    # ------------------------------------------------------------------
    def call_node(self, node: ast.Call):
        # super()
        if isinstance(node.func, ast.Name) and node.func.id == "super" and not node.args:
            fr = self.frame
            if fr.cls is None or fr.self_obj is None:
                return ("unk", "super() outside a method")
            return SuperRef(fr.self_obj, fr.cls, fr.static_cls or fr.cls)
        f = self.eval(node.func)
        args, kwargs, star_unknown = [], [], False
        for a in node.args:
            if isinstance(a, ast.Starred):
                v = self.eval(a.value)
                if isinstance(v, PyList) and v.plain():
                    args.extend(i.value for i in v.items)
                else:
                    t = self.to_term(v)
                    if t[0] in ("list", "tuple") and all(not (isinstance(i, tuple) and i and i[0] == "each") for i in t[1]):
                        args.extend(t[1])
                    else:
                        args.append(("starred", t))
                        star_unknown = True
            else:
                args.append(self.eval(a))
        for kw in node.keywords:
            if kw.arg is None:
                dv = self.eval(kw.value)
                if isinstance(dv, PyDict) and dv.entries and all(is_const(k_) and isinstance(k_[1], str) and not lp_ and not gd_
                                                                for (k_, _v, lp_, gd_) in dv.entries):
                    # **{"a": x, "b": y} with the keys written in the source is a=x, b=y
                    for (k_, v_, _lp, _gd) in dv.entries:
                        kwargs.append((k_[1], v_))
                    continue
                v = self.to_term(dv)
                kwargs.append(("**", v))
            else:
                kwargs.append((kw.arg, self.eval(kw.value)))
        return self.call(f, args, kwargs, node)

    def call(self, f, args, kwargs, node):
        if isinstance(f, ExtRef):
            return self.call_ext(f.dotted, args, kwargs, node)
        if isinstance(f, BuiltinMethod):
            return self.call_builtin_method(f, args, kwargs, node)
        if isinstance(f, ClassRef):
            return self.construct(f.cls, args, kwargs, node)
        if isinstance(f, BoundMethod):
            return self.call_method(f, args, kwargs, node)
        if isinstance(f, Closure):
            return self.call_closure(f, args, kwargs, node)
        ft = self.to_term(f)
        if ft[0] == "closure" and ft in getattr(self, "_closure_of_term", {}):
            return self.call_closure(self._closure_of_term[ft], args, kwargs, node)
        if ft[0] == "phi" and len(ft) == 4 and any(isinstance(x, tuple) and x and x[0] in ("attr", "phi", "boundmethod") for x in (ft[2], ft[3])):
            # a method chosen by a conditional (getattr(obj, name) with a name read from a table): each alternative is called
            # under its condition
            results = []

            def call_alt(t_):
                def run():
                    if t_ == NONE or (isinstance(t_, tuple) and t_ and t_[0] in ("unk", "k")):
                        results.append(NONE)
                        return None
                    if t_[0] in ("attr", "boundmethod"):
                        recv_, name_ = t_[1], t_[2]
                        r_ = ("mcall", recv_, name_, tuple(self.to_term(a) for a in args), tuple((k, self.to_term(v)) for k, v in kwargs))
                        self.event("mcall", {"recv": recv_, "name": name_, "args": r_[3], "kwargs": r_[4]}, node)
                        results.append(r_)
                        return None
                    results.append(self.to_term(self.call_value(t_, args, kwargs, node)) if hasattr(self, "call_value") else ("unk", "call"))
                    return None
                return run
            if ft[2][0] == "phi" or ft[3][0] == "phi":
                # nested chains: handled by recursion on the alternatives through a synthetic callee term
                pass
            self._branch(ft[1], call_alt(ft[2]) if ft[2][0] != "phi" else (lambda: self._call_conditional(ft[2], args, kwargs, node, results)),
                         call_alt(ft[3]) if ft[3][0] != "phi" else (lambda: self._call_conditional(ft[3], args, kwargs, node, results)))
            return results[0] if len(results) == 1 else (mkphi(ft[1], results[0], results[1]) if len(results) >= 2 else NONE)
        if ft[0] == "phi" and all(isinstance(x, tuple) and x and x[0] == "ext" for x in (ft[2], ft[3])):
            # a function chosen by a conditional (`op = operator.lt if kind == "min" else operator.gt`): the call is the
            # conditional of the two calls
            return mkphi(ft[1], self.to_term(self.call_ext(ft[2][1], args, kwargs, node)),
                         self.to_term(self.call_ext(ft[3][1], args, kwargs, node)))
        if ft[0] == "ext" and len(ft) == 2:
            return self.call_ext(ft[1], args, kwargs, node)     # an external function that travelled through a tuple / dict
        if ft[0] == "z3func":
            return app("apply", ft, *[self.to_term(a) for a in args])
        if ft[0] == "attr" and ft[2] == "update" and len(args) == 1 and not kwargs and isinstance(args[0], PyDict) \
                and args[0].entries and all(not lp_ and not gd_ for (_k, _v, lp_, gd_) in args[0].entries):
            # d.update({k: v, ...}) with the pairs written in the source is d[k] = v, ... in that order
            for (k_, v_, _lp, _gd) in args[0].entries:
                self.event("store", {"container": ft[1], "key": k_, "value": self.to_term(v_)}, node)
            return NONE
        if ft[0] == "attr":
            # method of an object whose class is not resolved
            r = ("mcall", ft[1], ft[2], tuple(self.to_term(a) for a in args),
                 tuple((k, self.to_term(v)) for k, v in kwargs))
            self.event("mcall", {"recv": ft[1], "name": ft[2], "args": r[3], "kwargs": r[4]}, node)
            return r
        r = ("call", show(ft), tuple(self.to_term(a) for a in args), tuple((k, self.to_term(v)) for k, v in kwargs))
        self.event("call", {"name": show(ft), "args": r[2], "kwargs": r[3]}, node)
        return r

    def _call_conditional(self, ft, args, kwargs, node, results):
        """helper of the conditional-callee case: ft is a nested ("phi", g, a, b) of method terms"""
        def alt(t_):
            def run():
                if isinstance(t_, tuple) and t_ and t_[0] == "phi" and len(t_) == 4:
                    return self._call_conditional(t_, args, kwargs, node, results)
                if isinstance(t_, tuple) and t_ and t_[0] in ("attr", "boundmethod"):
                    r_ = ("mcall", t_[1], t_[2], tuple(self.to_term(a) for a in args), tuple((k, self.to_term(v)) for k, v in kwargs))
                    self.event("mcall", {"recv": t_[1], "name": t_[2], "args": r_[3], "kwargs": r_[4]}, node)
                    results.append(r_)
                else:
                    results.append(NONE)
                return None
            return run
        return self._branch(ft[1], alt(ft[2]), alt(ft[3]))

    # -- external / builtin ---------------------------------------------------------
    OPERATOR_FUNCS = {"le": "<=", "lt": "<", "ge": ">=", "gt": ">", "eq": "==", "ne": "!=", "add": "+", "sub": "-", "mul": "*",
                      "floordiv": "//", "truediv": "/", "mod": "%", "and_": "&", "or_": "|"}

    def _as_items(self, v, node):
        """(value, loops, guards) triples of an iterable: its written items when they are known from the source, else one
        symbolic element of a fresh loop over it"""
        items = self._known_items(v)
        if items is not None:
            return [(val, tuple(loops), tuple(guards)) for val, loops, guards in items]
        lp = self.new_loop("comp", v, node)
        return [(("elem", lp), (lp,), ())]

    def _synth_comprehension(self, source, bindings, node):
        """evaluates a comprehension written here (one spelling for map / filter / filterfalse) with the given names bound"""
        comp = ast.parse(source, mode="eval").body
        for sub_ in ast.walk(comp):
            ast.copy_location(sub_, node)
        saved = self.frame.env
        self.frame.env = dict(saved)
        self.frame.env.update(bindings)
        try:
            return self._comprehension(comp, comp.elt)
        finally:
            self.frame.env = saved

    def call_ext(self, dotted, args, kwargs, node):
        if dotted in ("itertools.filterfalse", "filterfalse") and len(args) == 2 and not kwargs \
                and (args[0] == NONE or not isinstance(args[0], tuple)):
            if args[0] == NONE:
                return self._synth_comprehension("[__x for __x in __it if not __x]", {"__it": args[1]}, node)
            return self._synth_comprehension("[__x for __x in __it if not __f(__x)]", {"__f": args[0], "__it": args[1]}, node)
        if dotted in ("operator.attrgetter", "attrgetter", "operator.itemgetter", "itemgetter") and len(args) == 1 and not kwargs \
                and is_const(self.to_term(args[0])):
            # attrgetter("a") is lambda o: o.a ; itemgetter(k) is lambda o: o[k]
            key = self.to_term(args[0])[1]
            if dotted.endswith("attrgetter") and isinstance(key, str) and key.isidentifier():
                lam = ast.parse(f"lambda __o: __o.{key}", mode="eval").body
            elif dotted.endswith("itemgetter") and isinstance(key, (int, str)):
                lam = ast.parse(f"lambda __o: __o[{key!r}]", mode="eval").body
            else:
                lam = None
            if lam is not None:
                for sub_ in ast.walk(lam):
                    ast.copy_location(sub_, node)
                return Closure(lam, self.frame.module, {}, qual=f"{self.frame.qual}.<{dotted.split('.')[-1]}>")
        if dotted in ("itertools.chain.from_iterable", "chain.from_iterable") and len(args) == 1 and not kwargs \
                and self._known_items(args[0]) is not None:
            # the concatenation of the written sub-iterables: every element of every one of them, in order
            out = PyList(base_loops=self.loops, base_guards=self.eff_guards())
            for val, loops, guards in self._known_items(args[0]):
                for v2, l2, g2 in self._as_items(val, node):
                    out.items.append(Item(v2, tuple(loops) + l2, tuple(guards) + g2))
            return out
        if dotted in ("itertools.product", "product") and len(args) >= 2 and not kwargs:
            # the tuples (a, b, ...) in nested-loop order, the first iterable varying slowest
            combos = [((), (), ())]
            for a in args:
                nxt = []
                for vals, loops, guards in combos:
                    for v2, l2, g2 in self._as_items(a, node):
                        nxt.append((vals + (self.to_term(v2),), loops + l2, guards + g2))
                combos = nxt
            out = PyList(base_loops=self.loops, base_guards=self.eff_guards())
            for vals, loops, guards in combos:
                out.items.append(Item(("tuple", vals), loops, guards))
            return out
        if dotted.startswith("operator.") and not kwargs:
            fn = dotted.split(".", 1)[1]
            if fn in self.OPERATOR_FUNCS and len(args) == 2:
                op = self.OPERATOR_FUNCS[fn]
                if op in ("<=", "<", ">=", ">", "==", "!="):
                    return self.compare(op, self.to_term(args[0]), self.to_term(args[1]))
                return self.binop(op, args[0], args[1], node)
            if fn == "pos" and len(args) == 1:
                return args[0]
            if fn == "neg" and len(args) == 1:
                return app("neg", self.to_term(args[0]))
            if fn == "not_" and len(args) == 1:
                return app("not", self.to_term(args[0]))
        targs = [self.to_term(a) for a in args]
        tkw = tuple((k, self.to_term(v)) for k, v in kwargs)
        if dotted.startswith("z3."):
            name = dotted[3:]
            if name in Z3_CONSTS or name in ("Function", "Array"):
                self.event("z3var", {"sort": name, "name": targs[0] if targs else NONE}, node)
            if name in Z3_CONSTS:
                return ("z3var", Z3_CONSTS[name], targs[0] if targs else NONE)
            if name in Z3_FRESH:
                return ("fresh", Z3_FRESH[name], (str(self.site(node)), getattr(node, "col_offset", 0)) + tuple(l[1] for l in self.loops))
            if name == "Function":
                return ("z3func", targs[0] if targs else NONE)
            if name == "Array":
                return ("z3var", "Array", targs[0] if targs else NONE)
            if name in Z3_OPS:
                if name in Z3_VARIADIC and len(targs) == 1 and targs[0][0] in ("list", "tuple"):
                    return app(name, *targs[0][1])
                if name in Z3_VARIADIC and len(targs) == 1 and targs[0][0] not in ("list", "tuple", "starred"):
                    ty = self.typeof(targs[0])
                    if ty is not None and ty[0] == "list":
                        self._loop_counter += 1
                        lp = ("loop", self._loop_counter, "spread", targs[0])
                        return app(name, ("each", (lp,), (), ("elem", lp)))
                if name in Z3_VARIADIC and len(targs) == 1 and targs[0][0] == "starred" and targs[0][1][0] in ("list", "tuple"):
                    return app(name, *targs[0][1][1])
                if name in Z3_VARIADIC and len(targs) == 1 and targs[0][0] == "starred":
                    return app(name, ("each", (("loop", -1, "spread", targs[0][1]),), (), ("elem", ("loop", -1, "spread", targs[0][1]))))
                return app(name, *targs)
            if name == "set_option":
                self.event("z3opt", {"args": tuple(targs), "kwargs": tkw}, node)
                return NONE
            r = ("call", dotted, tuple(targs), tkw)
            self.event("call", {"name": dotted, "args": tuple(targs), "kwargs": tkw}, node)
            return r
        b = dotted[len("builtins."):] if dotted.startswith("builtins.") else None
        if b == "isinstance" and len(args) == 2:
            names = self._class_names(args[1])
            if names is not None:
                return app("isinstance", args[0] if isinstance(args[0], PyList) else targs[0], K(tuple(names)))
        if b == "len" and len(args) == 1:
            a = args[0]
            if isinstance(a, (PyList, PyDict)) and self.grown_in_running_loop(a) is not None:
                return ("call", "len", (self.to_term(a),), ())
            if isinstance(a, PyList) and a.plain():
                return K(len(a.items))
            if isinstance(a, PyDict) and all(not e[2] and not e[3] for e in a.entries):
                return K(len(a.entries))
            if targs[0][0] in ("list", "tuple") and all(not (isinstance(i, tuple) and i and i[0] == "each") for i in targs[0][1]):
                return K(len(targs[0][1]))
            return ("call", "len", (self.ref_term(a),), ())
        if b == "range":
            if len(targs) == 1:
                return ("range", K(0), targs[0])
            if len(targs) >= 2:
                return ("range", targs[0], targs[1]) + ((targs[2],) if len(targs) > 2 else ())
        if b in ("list", "tuple") and len(args) == 1:
            if isinstance(args[0], PyList):
                out = PyList(base_loops=self.loops, base_guards=self.eff_guards())
                self._extend(out, args[0])
                return out
            return ("call", b, (self.ref_term(args[0]),), ())
        if b in ("zip", "enumerate", "sorted", "reversed", "sum", "min", "max", "int", "str", "float", "bool", "hash",
                 "abs", "type", "id", "repr", "round", "set", "dict", "any", "all", "getattr", "hasattr", "open", "map",
                 "filter"):
            if b in ("int", "float", "str", "bool", "abs") and len(targs) == 1 and is_const(targs[0]):
                try:
                    return K({"int": int, "float": float, "str": str, "bool": bool, "abs": abs}[b](targs[0][1]))
                except Exception:
                    pass
            if b == "map" and len(args) == 2 and not tkw and self._known_items(args[1]) is not None \
                    and all(not lp_ and not gd_ for _v, lp_, gd_ in self._known_items(args[1])):
                # map(f, (a, b, ...)) over items written in the source: [f(a), f(b), ...] (called left to right)
                out = PyList(base_loops=self.loops, base_guards=self.eff_guards())
                for val, _lp, _gd in self._known_items(args[1]):
                    out.items.append(Item(self.call(args[0], [val], [], node)))
                return out
            if b == "map" and len(args) == 2 and not tkw and not isinstance(args[0], tuple):
                # map(f, xs) with a function known here: the generator (f(x) for x in xs), one spelling
                return self._synth_comprehension("[__f(__x) for __x in __it]", {"__f": args[0], "__it": args[1]}, node)
            if b == "filter" and len(args) == 2 and not tkw and (args[0] == NONE or not isinstance(args[0], tuple)):
                if args[0] == NONE:
                    return self._synth_comprehension("[__x for __x in __it if __x]", {"__it": args[1]}, node)
                return self._synth_comprehension("[__x for __x in __it if __f(__x)]", {"__f": args[0], "__it": args[1]}, node)
            if b in ("any", "all") and len(targs) == 1 and not tkw and targs[0][0] in ("list", "tuple") \
                    and all(not (isinstance(i, tuple) and i and i[0] == "each") for i in targs[0][1]):
                # over items known from the source: the conjunction / disjunction of their truth values
                unit = b == "all"
                acc = None
                for i in targs[0][1]:
                    if is_const(i) and isinstance(i[1], (bool, int, type(None), str)):
                        if bool(i[1]) != unit:
                            return K(not unit)
                        continue
                    acc = i if acc is None else app("and" if unit else "or", acc, i)
                return K(unit) if acc is None else acc
            if b == "getattr" and len(args) in (2, 3) and not tkw:
                nm = targs[1]

                def attr_of(n_):
                    if is_const(n_) and isinstance(n_[1], str):
                        return self.to_term(self.getattr(args[0], n_[1], node))
                    if isinstance(n_, tuple) and n_ and n_[0] == "phi" and len(n_) == 4:
                        a_, b_ = attr_of(n_[2]), attr_of(n_[3])
                        return None if a_ is None or b_ is None else mkphi(n_[1], a_, b_)
                    if n_ == NONE:
                        return NONE
                    return None
                if is_const(nm) and isinstance(nm[1], str):
                    return self.getattr(args[0], nm[1], node)
                if not is_const(nm) and nm[0] != "phi":
                    # a name that a guard in force restricts to written strings (`if name in ("a", "b"): getattr(o, name)`):
                    # the conditional over those strings
                    for g_ in list(self.guards) + list(self.kills):
                        if is_app(g_, "in") and len(g_) == 4 and g_[2] == nm and isinstance(g_[3], tuple) and g_[3] \
                                and g_[3][0] in ("tuple", "list") and g_[3][1] \
                                and all(is_const(c_) and isinstance(c_[1], str) for c_ in g_[3][1]):
                            consts = list(g_[3][1])
                            chain_ = NONE        # (not reached: the guard says the name is one of them)
                            for c_ in reversed(consts):
                                chain_ = ("phi", app("==", nm, c_), c_, chain_)
                            nm = chain_
                            break
                got = attr_of(nm)
                if got is not None:
                    return got
            if b == "str" and len(targs) == 1 and not tkw:
                # str(x) and f"{x}" are the same string
                t0 = targs[0]
                return t0 if (isinstance(t0, tuple) and t0 and t0[0] == "fstr") else ("fstr", (t0,))
            return ("call", b, tuple(self.ref_term(a) for a in args), tkw)
        if b == "print" or dotted in PURE_EXT:
            if b == "print":
                self.event("print", {"args": tuple(targs), "kwargs": tkw}, node)
            return NONE
        if b in ("AssertionError", "ValueError", "TypeError", "KeyError", "ModuleNotFoundError", "ImportError",
                 "Exception", "RuntimeError", "NotImplementedError", "IndexError", "AttributeError"):
            return ("exc", b, tuple(targs))
        r = ("call", dotted, tuple(targs), tkw)
        self.event("call", {"name": dotted, "args": tuple(targs), "kwargs": tkw}, node)
        return r

    def _class_names(self, v) -> Optional[List[str]]:
        if isinstance(v, ClassRef):
            return [v.cls.name]
        if isinstance(v, ExtRef):
            d = v.dotted
            return [d[len("builtins."):] if d.startswith("builtins.") else d]
        t = self.to_term(v)
        if t[0] == "tuple":
            out = []
            for x in t[1]:
                if x[0] == "class":
                    out.append(x[1])
                elif x[0] == "ext":
                    out.append(x[1][len("builtins."):] if x[1].startswith("builtins.") else x[1])
                else:
                    return None
            return out
        return None

    def call_builtin_method(self, f: BuiltinMethod, args, kwargs, node):
        recv, name = f.recv, f.name
        if isinstance(recv, PyList):
            if name == "append" and len(args) == 1:
                recv.items.append(Item(args[0], self._rel_loops(recv), self._rel_guards(recv)))
                return NONE
            if name == "extend" and len(args) == 1:
                self._extend(recv, args[0], node)
                return NONE
            if name == "copy":
                out = PyList(base_loops=self.loops, base_guards=self.eff_guards())
                self._extend(out, recv)
                return out
            if name == "pop":
                idx = self.to_term(args[0]) if args else K(-1)
                if recv.plain() and is_const(idx) and recv.items and not self._rel_loops(recv) and not self._rel_guards(recv):
                    return recv.items.pop(idx[1]).value
                snap = self.to_term(recv)
                recv.items = [Item(("listpop", snap, idx))]
                return ("idx", snap, idx)
            if name in ("count", "index"):
                return ("mcall", self.ref_term(recv), name, tuple(self.to_term(a) for a in args), ())
            if name == "insert" and len(args) == 2:
                idx = self.to_term(args[0])
                if recv.plain() and is_const(idx) and not self._rel_loops(recv) and not self._rel_guards(recv):
                    recv.items.insert(idx[1], Item(args[1]))
                    return NONE
            self.unknown(f"list method {name}", node)
            return ("unk", f"list.{name}")
        if isinstance(recv, PyDict):
            if name in ("values", "keys", "items"):
                return ("mcall", self.ref_term(recv), name, (), ())
            if name == "get":
                key = self.to_term(args[0])
                default = args[1] if len(args) > 1 else NONE
                ents = recv.entries
                if ents and all(is_const(k) and not l and not g for (k, v, l, g) in ents) and not is_const(key) \
                        and self.is_static(key) and self.dom(key).vals is not None:
                    # dispatch table read with a default: one configuration per key, the default for the other values
                    for (k, v, l, g) in ents:
                        if self.config.test_eq(key, self.dom(key), k[1]):
                            return v
                    return default
                if is_const(key) and all(is_const(k) and not l and not g for (k, v, l, g) in ents):
                    for (k, v, l, g) in ents:
                        if k == key:
                            return v
                    return default
                if ents and all(is_const(k) and not l and not g for (k, v, l, g) in ents):
                    # a table read with a key that is not a configuration atom: the chain of its cases
                    res = self.to_term(default)
                    for (k, v, l, g) in reversed(ents):
                        res = mkphi(app("==", key, k), self.to_term(v), res)
                    return res
                return self.subscript(recv, key)
            self.unknown(f"dict method {name}", node)
            return ("unk", f"dict.{name}")
        rt = self.to_term(recv)
        targs = tuple(self.ref_term(a) for a in args)
        if is_const(rt) and isinstance(rt[1], str) and name == "join" and len(args) == 1:
            return ("mcall", rt, "join", targs, ())
        r = ("mcall", rt, name, targs, tuple((k, self.to_term(v)) for k, v in kwargs))
        return r

    # -- repository callables ------------------------------------------------------
    def bind_params(self, fn, args, kwargs, node, skip_self=False):
        a = fn.args
        params = [p.arg for p in a.posonlyargs + a.args]
        if skip_self and params:
            params = params[1:]
        env: Dict[str, Any] = {}
        defaults = a.defaults
        ndef = len(defaults)
        all_pos = [p.arg for p in a.posonlyargs + a.args]
        def_map = {}
        for i, d in enumerate(defaults):
            def_map[all_pos[len(all_pos) - ndef + i]] = d
        for p, d in zip(a.kwonlyargs, a.kw_defaults):
            if d is not None:
                def_map[p.arg] = d
        pos = list(args)
        extra_kw = []
        for name in params:
            if pos:
                env[name] = pos.pop(0)
        if pos:
            if a.vararg:
                env[a.vararg.arg] = PyList([Item(x) for x in pos])
            else:
                self.unknown(f"too many arguments for {fn.name}", node)
        elif a.vararg:
            env[a.vararg.arg] = PyList()
        for k, v in kwargs:
            if k == "**":
                extra_kw.append(("**", v))
            elif k in params or k in [p.arg for p in a.kwonlyargs]:
                env[k] = v
            else:
                extra_kw.append((k, v))
        for name in params + [p.arg for p in a.kwonlyargs]:
            if name not in env:
                if name in def_map:
                    env[name] = ("defer", def_map[name])
                else:
                    env[name] = ("sym", name) if not extra_kw else ("idx", extra_kw[0][1], K(name))
        if a.kwarg:
            d = PyDict()
            sym = None
            for k, v in extra_kw:
                if k == "**":
                    sym = v
                else:
                    d.entries.append((K(k), v, (), ()))
            env[a.kwarg.arg] = sym if (sym is not None and not d.entries) else d if sym is None else ("kwmerge", sym, self.to_term(d))
        return env, extra_kw

    def push_frame(self, fr: Frame, env_defaults_module=None):
        fr.base_guards = len(self.guards)
        fr.base_loops = len(self.loops)
        fr.base_kills = len(self.kills)
        self.frames.append(fr)
        # evaluate deferred default expressions in the callee's module context
        for k, v in list(fr.env.items()):
            if isinstance(v, tuple) and v and v[0] == "defer":
                fr.env[k] = self.eval(v[1])

    def run_body(self, fr: Frame, body) -> Any:
        if len(self.frames) > self.max_depth + 1:
            self.unknown(f"inlining depth exceeded at {fr.qual}")
            return ("unk", "depth")
        for f in self.frames:
            if f.qual == fr.qual and f.self_obj == fr.self_obj:
                self.unknown(f"recursive call of {fr.qual}")
                return ("unk", "recursion")
        self.push_frame(fr)
        try:
            if isinstance(body, list) and _is_generator_body(body):
                # a generator function: what it yields, in order (consumed by the caller as a list written here; the values
                # of `return` statements of a generator are not results)
                fr.yields = PyList(base_loops=self.loops, base_guards=self.eff_guards())
                try:
                    self.exec_block(body)
                except _Return:
                    pass
                return fr.yields
            try:
                if isinstance(body, ast.expr):
                    return self.eval(body)
                ended = self.exec_block(body)
                result = NONE
            except _Return as r:
                result = r.value
                ended = "return"
            if fr.returns:
                # residual returns: build a phi chain, the fall-through / final return is the default
                rets = list(fr.returns)
                if ended == "raise":
                    # the body ends by raising on everything that is left: no fall-through value, the last residual return
                    # is what the function returns on the paths that return at all
                    result = rets.pop()[1]
                res = self.to_term(result)
                for guards, val in reversed(rets):
                    res = ("phi", self._conj(guards) if guards else TRUE, self.to_term(val), res)
                return res
            return result
        finally:
            del self.kills[fr.base_kills:]
            self.frames.pop()

    def call_closure(self, c: Closure, args, kwargs, node):
        fn = c.fn
        qual = c.qual or getattr(fn, "name", "lambda")
        short = qual.split(".")[-1]
        if short in self.opaque or qual in self.opaque:
            r = ("call", qual, tuple(self.ref_term(a) for a in args), tuple((k, self.to_term(v)) for k, v in kwargs))
            self.event("call", {"name": qual, "args": r[2], "kwargs": r[3]}, node)
            return r
        if isinstance(fn, ast.Lambda):
            env, _ = self.bind_params(fn, args, kwargs, node)
            fr = Frame(c.module, qual, env, self_obj=c.self_obj, cls=c.cls, closure_envs=[c.env] + list(c.outer),
                       call_site=self.site(node))
            self.closure_frames[qual] = fr
            return self.run_body(fr, fn.body)
        env, _ = self.bind_params(fn, args, kwargs, node)
        fr = Frame(c.module, qual, env, self_obj=c.self_obj, cls=c.cls, closure_envs=([c.env] if c.env else []) + list(c.outer),
                   call_site=self.site(node))
        self.closure_frames[qual] = fr
        return self.run_body(fr, fn.body)

    def call_method(self, bm: BoundMethod, args, kwargs, node):
        fn, owner = bm.fn, bm.owner
        recv = self.to_term(bm.recv)
        name = fn.name
        qual = f"{owner.name}.{name}"
        if name in SINKS and owner.is_subclass_of(SINK_OWNER_CLASS) and owner.name == SINK_OWNER_CLASS:
            return self.sink(recv, name, args, node)
        if name in self.opaque or qual in self.opaque:
            r = ("mcall", recv, name, tuple(self.ref_term(a) for a in args), tuple((k, self.to_term(v)) for k, v in kwargs))
            self.event("mcall", {"recv": recv, "name": name, "args": r[3], "kwargs": r[4], "owner": owner.name}, node)
            return r
        decorators = {ast.unparse(d) for d in fn.decorator_list}
        if "staticmethod" in decorators:
            # no receiver is passed: the parameters are the call's arguments
            env, extra = self.bind_params(fn, args, kwargs, node, skip_self=False)
            fr = Frame(owner.module, qual, env, self_obj=None, cls=owner, static_cls=bm.static_cls or owner, call_site=self.site(node))
            self._via.append(qual)
            try:
                return self.run_body(fr, fn.body)
            finally:
                self._via.pop()
        env, extra = self.bind_params(fn, args, kwargs, node, skip_self=True)
        selfname = fn.args.args[0].arg if fn.args.args else "self"
        env[selfname] = ("class", owner.name) if "classmethod" in decorators else recv
        if name == "__init__":
            # explicit keyword arguments of a constructor chain become field values
            for k, v in extra:
                if k != "**":
                    self.heap[(recv, k)] = v
        fr = Frame(owner.module, qual, env, self_obj=recv, cls=owner, static_cls=bm.static_cls or owner,
                   call_site=self.site(node))
        self._via.append(qual)
        try:
            return self.run_body(fr, fn.body)
        finally:
            self._via.pop()

    def sink(self, recv, name, args, node):
        if not args:
            return NONE
        v = args[0]
        if name == "append_z3_list_of_assertions":
            t = v if isinstance(v, PyList) else self.to_term(v)
            if isinstance(t, PyList):
                for it in t.items:
                    self._emit(recv, name, self.to_term(it.value), it.loops, it.guards, node)
            elif t[0] in ("list", "tuple"):
                for x in t[1]:
                    if isinstance(x, tuple) and x and x[0] == "each":
                        self._emit(recv, name, x[3], x[1], x[2], node)
                    else:
                        self._emit(recv, name, x, (), (), node)
            else:
                self._loop_counter += 1
                loop = ("loop", self._loop_counter, "spread", t)
                self._emit(recv, name, ("elem", loop), (loop,), (), node)
        else:
            self._emit(recv, name, self.to_term(v), (), (), node)
        return TRUE

    def _emit(self, owner, sink, term, loops, guards, node):
        lst = self.heap.get((owner, "_z3_assertions"))
        if isinstance(lst, PyList):
            # an object built inside the analysed code: its assertion list is visible to a later drain in the same run
            lst.items.append(Item(term, self._rel_loops(lst) + tuple(loops), self._rel_guards(lst) + tuple(guards)))
        self.emissions.append(Emission(owner, sink, term, self.eff_guards() + tuple(guards), self.loops + tuple(loops),
                                       self.site(node), self.stack(), tuple(self._via)))

    def construct(self, ci: P.ClassInfo, args, kwargs, node):
        if ci.name in self.opaque:
            r = ("call", ci.name, tuple(self.to_term(a) for a in args), tuple((k, self.to_term(v)) for k, v in kwargs))
            self.event("new", {"cls": ci.name, "obj": r, "kwargs": r[3], "opaque": True}, node)
            return r
        self._obj_counter += 1
        obj = ("obj", ci.name, self._obj_counter)
        tkw = tuple((k, self.to_term(v)) for k, v in kwargs)
        self.event("new", {"cls": ci.name, "obj": obj, "kwargs": tkw, "opaque": False}, node)
        oc, fn = ci.find_method("__init__")
        if fn is None:
            for k, v in kwargs:
                if k != "**":
                    self.heap[(obj, k)] = v
            return obj
        bm = BoundMethod(obj, oc, fn, ci)
        # fields passed by keyword are visible to the whole constructor chain
        fnames = ci.all_fields()
        params = [p.arg for p in fn.args.args[1:]] + [p.arg for p in fn.args.kwonlyargs]
        for k, v in kwargs:
            if k != "**" and k in fnames and k not in params and fn.args.kwarg is not None:
                self.heap[(obj, k)] = v
        self.call_method(bm, args, kwargs, node)
        return obj


# ---------------------------------------------------------------------------
# driver
# ---------------------------------------------------------------------------
@dataclass
class Entry:
    kind: str                       # 'init' | 'method' | 'func'
    cls: Optional[str] = None
    name: Optional[str] = None      # method / function name
    module: Optional[str] = None    # for 'func'
    param_types: Dict[str, tuple] = field(default_factory=dict)
    opaque: Tuple[str, ...] = ()
    max_depth: int = 8
    max_paths: int = 512
    preset: Dict[str, Any] = field(default_factory=dict)     # attribute values of self known at entry
    not_none: Tuple[str, ...] = ("self.name",)               # leaves assumed not None (no fork on them)
    nonstatic: Tuple[str, ...] = ()                          # parameters whose tests are kept as residual guards
    post_call: Optional[Tuple[str, Tuple[str, ...]]] = None  # after an 'init' entry: call the callable stored in this
                                                             # attribute of self with these symbolic arguments; the
                                                             # run's return value is that call's result

    def label(self):
        if self.kind == "init":
            return f"{self.cls}.__init__"
        if self.kind == "method":
            return f"{self.cls}.{self.name}"
        return f"{self.module}.{self.name}"


def explore(project: P.Project, entry: Entry) -> List[Run]:
    """all configuration paths of an entry point"""
    runs: List[Run] = []
    prefix: Optional[List[bool]] = []
    while prefix is not None:
        oracle = PathOracle(prefix)
        config = Config(oracle)
        run = _run_once(project, entry, config)
        runs.append(run)
        if len(runs) > entry.max_paths:
            raise P.AnalysisError(f"{entry.label()}: more than {entry.max_paths} configuration paths")
        prefix = next_prefix(oracle.taken)
    return runs


def _run_once(project, entry: Entry, config: Config) -> Run:
    top_cls = project.cls(entry.cls) if entry.cls else None
    it = Interp(project, config, opaque=set(entry.opaque), max_depth=entry.max_depth, top_cls=top_cls)
    rejected, info, retval = False, None, None
    self_t = ("sym", "self")
    if entry.kind in ("init", "method"):
        mname = "__init__" if entry.kind == "init" else entry.name
        oc, fn = top_cls.find_method(mname)
        if fn is None:
            raise P.AnalysisError(f"anchor vanished: {entry.cls}.{mname}")
        it.symtypes["self"] = ("cls", top_cls.name)
        it.static_syms.add("self")
        module = oc.module
        env: Dict[str, Any] = {}
        a = fn.args
        names = [p.arg for p in a.posonlyargs + a.args][1:] + [p.arg for p in a.kwonlyargs]
        def_map = {}
        pos = [p.arg for p in a.posonlyargs + a.args]
        for i, d in enumerate(a.defaults):
            def_map[pos[len(pos) - len(a.defaults) + i]] = d
        for p, d in zip(a.kwonlyargs, a.kw_defaults):
            if d is not None:
                def_map[p.arg] = d
        for p in a.posonlyargs + a.args + a.kwonlyargs:
            if p.arg in names:
                env[p.arg] = ("sym", p.arg)
                if p.arg not in entry.nonstatic:
                    it.static_syms.add(p.arg)
                if p.arg in entry.param_types:
                    it.symtypes[p.arg] = entry.param_types[p.arg]
                elif p.annotation is not None:
                    it.symtypes[p.arg] = P.parse_type(p.annotation)
                elif p.arg in def_map:
                    try:
                        dv = P._const(def_map[p.arg])
                        if isinstance(dv, bool):
                            it.symtypes[p.arg] = ("prim", "bool")
                        elif isinstance(dv, int):
                            it.symtypes[p.arg] = ("int", None, None)
                    except ValueError:
                        pass
        if a.kwarg:
            env[a.kwarg.arg] = ("sym", a.kwarg.arg)
        if a.vararg:
            env[a.vararg.arg] = ("sym", a.vararg.arg)
        env[a.args[0].arg] = self_t
        for k, v in entry.preset.items():
            it.heap[(self_t, k)] = v
        fr = Frame(module, f"{oc.name}.{mname}", env, self_obj=self_t, cls=oc, static_cls=top_cls)
        body = fn.body
    else:
        m = project.module(entry.module)
        fn = project.function(entry.module, entry.name.split(".")[0])
        for part in entry.name.split(".")[1:]:
            inner = [n for n in ast.walk(fn) if isinstance(n, ast.FunctionDef) and n.name == part and n is not fn]
            if not inner:
                raise P.AnalysisError(f"anchor vanished: nested function {entry.module}.{entry.name}")
            fn = inner[0]
        env = {}
        for p in fn.args.posonlyargs + fn.args.args + fn.args.kwonlyargs:
            env[p.arg] = ("sym", p.arg)
            if p.arg not in entry.nonstatic:
                it.static_syms.add(p.arg)
            if p.arg in entry.param_types:
                it.symtypes[p.arg] = entry.param_types[p.arg]
            elif p.annotation is not None:
                it.symtypes[p.arg] = P.parse_type(p.annotation)
        fr = Frame(m, f"{m.short}.{fn.name}", env)
        body = fn.body
    try:
        from .terms import path as _path
        for leaf in entry.not_none:
            lt = _path(leaf)
            d = it.dom(lt)
            d.can_none = False
        retval = it.run_body(fr, body)
        if entry.post_call:
            attr, argnames = entry.post_call
            target = it.heap.get((self_t, attr))
            args = [("sym", a) for a in argnames]
            for a in argnames:
                it.static_syms.discard(a)
            if isinstance(target, Closure):
                it.frames.append(fr)
                try:
                    retval = it.call_closure(target, args, [], fn)
                finally:
                    it.frames.pop()
                fr.env = dict(fr.env)
                for q, cf in it.closure_frames.items():
                    for k, v in cf.env.items():
                        fr.env[f"{q.split('.')[-1]}:{k}"] = v
            elif target is None:
                raise P.AnalysisError(f"anchor vanished: {entry.label()} stores nothing in self.{attr}")
            else:
                retval = ("call", "self." + attr, (it.to_term(target),) + tuple(args), ())
    except _Raise as r:
        rejected, info = True, r.info
    except _LoopExit:
        pass
    return Run(entry.label(), config.key(), list(config.decisions), config.summary(), dict(config.doms),
               it.emissions, it.events, retval if not isinstance(retval, (PyList, PyDict)) else it.to_term(retval),
               rejected, info, it.heap, fr.env, it.unknowns)
