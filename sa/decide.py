"""E3 - normal forms and the finite decision domains.

* linear canonical forms of arithmetic atoms over the integers
* boolean normalisation (flattening, sorting, constant folding)
* truth tables over canonical atoms
* the order-type domain: exhaustive enumeration of the weak orderings of a small
  point set, exact for formulas that touch their integer unknowns only through
  comparisons.

Everything works on the extracted IR; no solver, nothing from the repository.
"""
from __future__ import annotations

import itertools
from fractions import Fraction
from typing import Callable, Dict, Iterable, List, Optional, Sequence, Tuple

from .terms import K, TRUE, FALSE, app, is_app, is_const, show, subterms, rewrite, canon_loops

BOOL_OPS = {"And", "Or", "Not", "Xor", "Implies", "If"}
CMP_OPS = {"<", "<=", ">", ">=", "==", "!="}


class Undecided(Exception):
    pass


# ---------------------------------------------------------------------------
# linear forms
# ---------------------------------------------------------------------------
class Lin:
    __slots__ = ("coef", "const")

    def __init__(self, coef=None, const=0):
        self.coef: Dict[tuple, Fraction] = dict(coef or {})
        self.const = Fraction(const)

    def add(self, o, k=1):
        r = Lin(self.coef, self.const)
        for t, c in o.coef.items():
            r.coef[t] = r.coef.get(t, 0) + c * k
            if r.coef[t] == 0:
                del r.coef[t]
        r.const += o.const * k
        return r

    def scale(self, k):
        return Lin({t: c * k for t, c in self.coef.items() if c * k != 0}, self.const * k)

    def is_const(self):
        return not self.coef

    def key(self):
        return (tuple(sorted(((show(t), t, c) for t, c in self.coef.items()), key=lambda x: x[0])), self.const)

    def __eq__(self, o):
        return isinstance(o, Lin) and self.coef == o.coef and self.const == o.const

    def __hash__(self):
        return hash((frozenset(self.coef.items()), self.const))

    def show(self):
        parts = []
        for s, t, c in self.key()[0]:
            parts.append(f"{'' if c == 1 else '-' if c == -1 else str(c) + '*'}{s}")
        if self.const != 0 or not parts:
            parts.append(str(self.const))
        return " + ".join(parts).replace("+ -", "- ")


def lin(t) -> Lin:
    """linear form of an arithmetic term; non linear / opaque sub terms become leaves"""
    if is_const(t):
        v = t[1]
        if isinstance(v, bool):
            return Lin(const=int(v))
        if isinstance(v, (int, float)):
            return Lin(const=Fraction(v))
        return Lin({t: Fraction(1)})
    if is_app(t):
        op = t[1]
        if op == "+" and len(t) == 4:
            return lin(t[2]).add(lin(t[3]))
        if op == "-" and len(t) == 4:
            return lin(t[2]).add(lin(t[3]), -1)
        if op == "neg":
            return lin(t[2]).scale(-1)
        if op == "*" and len(t) == 4:
            a, b = lin(t[2]), lin(t[3])
            if a.is_const():
                return b.scale(a.const)
            if b.is_const():
                return a.scale(b.const)
            # (sum) * leaf distributes over the sum: (x - y) * d is x*d - y*d  (one factor a single leaf with coefficient 1)
            for s_, f_ in ((a, b), (b, a)):
                if len(f_.coef) == 1 and f_.const == 0 and list(f_.coef.values())[0] == 1 and (len(s_.coef) > 1 or s_.const != 0):
                    leaf = list(f_.coef)[0]
                    r = Lin()
                    for x_, c_ in s_.coef.items():
                        fs = sorted([x_, leaf], key=show)
                        r = r.add(Lin({app("*", *fs): c_}))
                    if s_.const != 0:
                        r = r.add(Lin({leaf: s_.const}))
                    return r
            # product of two non constants: opaque monomial, factors sorted
            fs = sorted([norm(t[2]), norm(t[3])], key=show)
            return Lin({app("*", *fs): Fraction(1)})
        if op == "Sum":
            r = Lin()
            for a in merge_complementary(t[2:]):
                if isinstance(a, tuple) and a and a[0] == "each":
                    r = r.add(Lin({("sumeach", a[1], a[2], norm(a[3])): Fraction(1)}))
                else:
                    r = r.add(lin(a))
            return r
    if isinstance(t, tuple) and t and t[0] == "lin":
        r = Lin(const=Fraction(t[2]))
        for leaf, c in t[1]:
            r = r.add(Lin({leaf: Fraction(c)}))
        return r
    return Lin({norm(t): Fraction(1)})


def _negation_of(g):
    if is_app(g, "not") or is_app(g, "Not"):
        return g[2]
    return app("not", g)


def merge_complementary(args):
    """each(L, G + [g], a) and each(L, G + [not g], b) in one sum/list are each(L, G, a if g else b)"""
    args = list(args)
    changed = True
    while changed:
        changed = False
        for i in range(len(args)):
            for j in range(len(args)):
                a, b = args[i], args[j]
                if i == j or not (isinstance(a, tuple) and a and a[0] == "each" and isinstance(b, tuple) and b and b[0] == "each"):
                    continue
                if a[1] != b[1] or len(a[2]) != len(b[2]):
                    continue
                ga, gb = list(a[2]), list(b[2])
                diff = [(x, y) for x, y in zip(ga, gb) if x != y]
                common = [x for x, y in zip(ga, gb) if x == y]
                if len(diff) == 1 and _negation_of(diff[0][0]) == diff[0][1] and not (is_app(diff[0][0], "not") or is_app(diff[0][0], "Not")):
                    merged = ("each", a[1], tuple(common), _canon(("phi", diff[0][0], a[3], b[3])))
                    args = [x for k, x in enumerate(args) if k not in (i, j)] + [merged]
                    changed = True
                    break
            if changed:
                break
    return args


def lin_term_leaves(t) -> List[tuple]:
    return [x for x in lin(t).coef.keys()]


# ---------------------------------------------------------------------------
# canonical atoms: ('le', Lin)  lin <= 0 | ('eq', Lin) | ('ne', Lin)
# ---------------------------------------------------------------------------
def canon_atom(t):
    """canonical form of a comparison between integer terms, or None"""
    if not (is_app(t) and t[1] in CMP_OPS and len(t) == 4):
        return None
    op, a, b = t[1], t[2], t[3]
    d = lin(a).add(lin(b), -1)          # a - b
    if op == "<=":
        return ("le", d)
    if op == "<":
        return ("le", d.add(Lin(const=1)))
    if op == ">=":
        return ("le", d.scale(-1))
    if op == ">":
        return ("le", d.scale(-1).add(Lin(const=1)))
    # == / != : fix the sign
    k = d.key()[0]
    if k and k[0][2] < 0:
        d = d.scale(-1)
    elif not k and d.const < 0:
        d = d.scale(-1)
    return ("eq" if op == "==" else "ne", d)


def atom_key(ca):
    return (ca[0], ca[1].key())


def show_atom(ca):
    return f"{ca[1].show()} {'<=' if ca[0] == 'le' else '==' if ca[0] == 'eq' else '!='} 0"


# ---------------------------------------------------------------------------
# boolean normalisation
# ---------------------------------------------------------------------------
def norm(t):
    """structural normal form: And/Or flattened, sorted and deduplicated, constants folded,
    loop ids canonical.  Semantics preserving."""
    return _norm(_alpha(t, 0))


def _alpha(t, depth):
    """bound loops of `each` binders get names that depend only on the nesting depth"""
    if not isinstance(t, tuple) or not t:
        return t
    if t[0] == "each" and len(t) == 4:
        mapping = {}
        new_loops = []
        for k, l in enumerate(t[1]):
            it = substitute_loops(l[3], mapping)
            nl = ("loop", f"b{depth}.{k}", "", _alpha(it, depth + 1))
            mapping[l] = nl
            new_loops.append(nl)
        guards = tuple(_alpha(substitute_loops(g, mapping), depth + 1) for g in t[2])
        body = _alpha(substitute_loops(t[3], mapping), depth + 1)
        return ("each", tuple(new_loops), guards, body)
    return tuple(_alpha(c, depth) if isinstance(c, tuple) else c for c in t)


def substitute_loops(t, mapping):
    if not mapping or not isinstance(t, tuple) or not t:
        return t
    if t in mapping:
        return mapping[t]
    return tuple(substitute_loops(c, mapping) if isinstance(c, tuple) else c for c in t)


def _norm(t):
    if not isinstance(t, tuple) or not t:
        return t
    if t[0] == "app":
        op = t[1]
        args = [_norm(a) for a in t[2:]]
        if op in ("And", "Or"):
            flat = []
            for a in args:
                if a and a[0] == "list":
                    args2 = list(a[1])
                else:
                    args2 = [a]
                for x in args2:
                    if is_app(x, op):
                        flat.extend(x[2:])
                    else:
                        flat.append(x)
            unit = TRUE if op == "And" else FALSE
            zero = FALSE if op == "And" else TRUE
            out = []
            for a in flat:
                if a == unit:
                    continue
                if a == zero:
                    return zero
                if a not in out:
                    out.append(a)
            if not out:
                return unit
            if len(out) == 1 and not (out[0] and out[0][0] == "each"):
                return out[0]
            return app(op, *sorted(out, key=show))
        if op == "Not" and len(args) == 1:
            a = args[0]
            if a == TRUE:
                return FALSE
            if a == FALSE:
                return TRUE
            if is_app(a, "Not"):
                return a[2]
            return app("Not", a)
        if op == "Implies" and len(args) == 2:
            if args[0] == TRUE:
                return args[1]
            if args[0] == FALSE or args[1] == TRUE:
                return TRUE
            return app("Implies", *args)
        if op == "If" and len(args) == 3:
            if args[0] == TRUE:
                return args[1]
            if args[0] == FALSE:
                return args[2]
            return app("If", *args)
        if op == "and*":
            return _norm(app("And", *args))
        return app(op, *args)
    if t[0] == "each":
        # a binder over range(a, b) with a != 0 ranges over range(0, b - a) with the element shifted by a: one spelling for
        # `for i in range(1, n): x[i], y[i - 1]` and `for i in range(n - 1): x[i + 1], y[i]`
        loops, guards, body = list(t[1]), list(t[2]), t[3]
        for k, l in enumerate(loops):
            it = l[3]
            if isinstance(it, tuple) and it and it[0] == "range" and len(it) == 3 and it[1] != K(0):
                nl = (l[0], l[1], l[2], ("range", K(0), app("-", it[2], it[1])))
                m = {("elem", l): app("+", ("elem", nl), it[1])}
                sub_ = lambda x: substitute_loops(substitute_loops(x, m), {l: nl})
                loops = loops[:k] + [nl] + [sub_(x) for x in loops[k + 1:]]
                guards = [sub_(g) for g in guards]
                body = sub_(body)
        return ("each", tuple(_norm(l) for l in loops), tuple(_norm(g) for g in guards), _norm(body))
    if t[0] == "idx" and len(t) == 3:
        return ("idx", _norm(t[1]), canon_arith(t[2]))
    if t[0] == "range" and len(t) == 3:
        return ("range", canon_arith(t[1]), canon_arith(t[2]))
    return tuple(_norm(c) if isinstance(c, tuple) else c for c in t)


def canon_arith(t):
    """canonical form of an integer expression used as an index / bound: ('lin', ((leaf, coef)...), const)
    (a plain leaf or constant stays itself)"""
    if not (is_app(t) and t[1] in ("+", "-", "*", "neg")):
        return _norm(t)
    l = lin(t)
    if l.is_const():
        c = l.const
        return K(int(c) if c.denominator == 1 else float(c))
    items = tuple((leaf, (int(c) if c.denominator == 1 else float(c))) for _, leaf, c in l.key()[0])
    if len(items) == 1 and items[0][1] == 1 and l.const == 0:
        return items[0][0]
    c = l.const
    return ("lin", items, int(c) if c.denominator == 1 else float(c))


# ---------------------------------------------------------------------------
# formula evaluation under an assignment of the atoms / leaves
# ---------------------------------------------------------------------------
def collect_atoms(t, out=None) -> List[tuple]:
    """comparison atoms and boolean leaves of a boolean formula (order of first occurrence)"""
    if out is None:
        out = []
    if is_const(t):
        return out
    if is_app(t) and t[1] in BOOL_OPS:
        for a in t[2:]:
            collect_atoms(a, out)
        return out
    if is_app(t) and t[1] in ("==", "!=") and len(t) == 4 and (is_boolish(t[2]) or is_boolish(t[3])):
        collect_atoms(t[2], out)
        collect_atoms(t[3], out)
        return out
    if t not in out:
        out.append(t)
    return out


def is_boolish(t) -> bool:
    if is_const(t):
        return isinstance(t[1], bool)
    if is_app(t) and (t[1] in BOOL_OPS or t[1] in CMP_OPS or t[1] in ("PbGe", "PbLe", "PbEq")):
        return True
    if isinstance(t, tuple) and t and t[0] == "z3var" and t[1] == "Bool":
        return True
    if isinstance(t, tuple) and t and t[0] == "attr" and t[2] in ("_scheduled", "_applied"):
        return True
    if isinstance(t, tuple) and t and t[0] == "boolleaf":
        return True
    return False


def eval_formula(t, leaf_val: Callable[[tuple], object]):
    """evaluate a boolean formula; `leaf_val(atom_or_leaf)` gives the truth value of
    every comparison atom / boolean leaf (it may raise Undecided)"""
    if is_const(t):
        return bool(t[1])
    if is_app(t):
        op = t[1]
        if op == "And":
            return all(eval_formula(a, leaf_val) for a in t[2:])
        if op == "Or":
            return any(eval_formula(a, leaf_val) for a in t[2:])
        if op == "Not":
            return not eval_formula(t[2], leaf_val)
        if op == "Xor":
            return eval_formula(t[2], leaf_val) != eval_formula(t[3], leaf_val)
        if op == "Implies":
            return (not eval_formula(t[2], leaf_val)) or eval_formula(t[3], leaf_val)
        if op == "If":
            return eval_formula(t[3], leaf_val) if eval_formula(t[2], leaf_val) else eval_formula(t[4], leaf_val)
        if op in ("==", "!=") and len(t) == 4 and (is_boolish(t[2]) or is_boolish(t[3])):
            r = eval_formula(t[2], leaf_val) == eval_formula(t[3], leaf_val)
            return r if op == "==" else not r
    return bool(leaf_val(t))


# ---------------------------------------------------------------------------
# truth tables over canonical atoms
# ---------------------------------------------------------------------------
def _atom_id(a):
    ca = canon_atom(a)
    if ca is None:
        return ("leaf", repr(canon(a))), False
    if ca[0] == "ne":
        return ("atom", atom_key(("eq", ca[1]))), True
    return ("atom", atom_key(ca)), False


def truth_table_equiv(f1, f2, assume=None, max_atoms=14):
    """equivalence of two boolean formulas with their canonical comparison atoms taken as
    independent booleans.  True is sound (equal boolean functions); a False result comes
    with the distinguishing assignment.  `assume` restricts the assignments."""
    atoms1, atoms2 = collect_atoms(f1), collect_atoms(f2)
    ids: List = []
    for a in atoms1 + atoms2 + (collect_atoms(assume) if assume is not None else []):
        i, _ = _atom_id(a)
        if i not in ids:
            ids.append(i)
    if len(ids) > max_atoms:
        raise Undecided(f"{len(ids)} atoms")
    for bits in itertools.product([False, True], repeat=len(ids)):
        val = dict(zip(ids, bits))

        def lv(a):
            i, neg = _atom_id(a)
            return (not val[i]) if neg else val[i]

        if assume is not None and not eval_formula(assume, lv):
            continue
        v1, v2 = eval_formula(f1, lv), eval_formula(f2, lv)
        if v1 != v2:
            return False, {str(k[1])[:120]: v for k, v in val.items()}, (v1, v2)
    return True, None, None


# ---------------------------------------------------------------------------
# the order-type domain
# ---------------------------------------------------------------------------
def weak_orderings(n: int):
    """all weak orderings of n points, as tuples rank[i] (0-based dense ranks)"""
    if n == 0:
        yield ()
        return
    # ordered set partitions
    def rec(items):
        if not items:
            yield []
            return
        first, rest = items[0], items[1:]
        for part in rec(rest):
            # put `first` into an existing block
            for i in range(len(part)):
                yield part[:i] + [part[i] + [first]] + part[i + 1:]
            # or as a new block at any position
            for i in range(len(part) + 1):
                yield part[:i] + [[first]] + part[i:]
    for part in rec(list(range(n))):
        rank = [0] * n
        for r, block in enumerate(part):
            for i in block:
                rank[i] = r
        yield tuple(rank)


N_ORDERINGS = {0: 1, 1: 1, 2: 3, 3: 13, 4: 75, 5: 541, 6: 4683}


def comparison_points(t) -> Optional[List[tuple]]:
    """points of a comparison-only formula (every atom compares two point-like terms);
    None if some atom involves arithmetic.  Numeric constants are points."""
    pts: List[tuple] = []
    for a in collect_atoms(t):
        if is_app(a) and a[1] in CMP_OPS and len(a) == 4:
            for side in (a[2], a[3]):
                if is_app(side) and side[1] in ("+", "-", "*", "/", "%", "neg", "Sum", "**"):
                    return None
                s = norm(side)
                if s not in pts:
                    pts.append(s)
    return pts


def order_type_check(f1, f2, points: Sequence[tuple], bool_leaves: Sequence[tuple] = (), side=None,
                     dont_care=None):
    """compare two comparison-only formulas on every weak ordering of `points` (x every
    assignment of `bool_leaves`) that satisfies `side`; orderings where `dont_care` holds
    are skipped.  Numeric constant points keep their numeric order.
    returns (ok, n_evaluated, counterexample)"""
    points = [norm(p) for p in points]
    bool_leaves = [repr(canon(b)) for b in bool_leaves]
    consts = [(i, p[1]) for i, p in enumerate(points) if is_const(p) and isinstance(p[1], (int, float))]
    n_eval = 0
    for rank in weak_orderings(len(points)):
        ok = True
        for (i, vi), (j, vj) in itertools.combinations(consts, 2):
            if (vi < vj) != (rank[i] < rank[j]) or (vi == vj) != (rank[i] == rank[j]):
                ok = False
                break
        if not ok:
            continue
        pv = dict(zip(points, rank))
        for bits in itertools.product([False, True], repeat=len(bool_leaves)):
            bv = dict(zip(bool_leaves, bits))

            def lv(a):
                if is_app(a) and a[1] in CMP_OPS and len(a) == 4:
                    x, y = norm(a[2]), norm(a[3])
                    if x not in pv or y not in pv:
                        raise Undecided(f"point not in the ordering: {show(a)}")
                    x, y = pv[x], pv[y]
                    return {"<": x < y, "<=": x <= y, ">": x > y, ">=": x >= y, "==": x == y, "!=": x != y}[a[1]]
                na = repr(canon(a))
                if na in bv:
                    return bv[na]
                raise Undecided(f"leaf not assigned: {show(a)}")

            if side is not None and not eval_formula(side, lv):
                continue
            if dont_care is not None and eval_formula(dont_care, lv):
                continue
            n_eval += 1
            v1, v2 = eval_formula(f1, lv), eval_formula(f2, lv)
            if v1 != v2:
                order = describe_ordering(points, rank)
                return False, n_eval, {"ordering": order, "flags": {str(k)[:80]: v for k, v in bv.items()},
                                       "emitted": v1, "spec": v2}
    return True, n_eval, None


def describe_ordering(points, rank) -> str:
    blocks: Dict[int, List[str]] = {}
    for p, r in zip(points, rank):
        blocks.setdefault(r, []).append(show(p))
    return " < ".join(" = ".join(blocks[r]) for r in sorted(blocks))


def implies_on_orderings(f1, f2, points, bool_leaves=(), side=None, dont_care=None):
    """f1 => f2 on every ordering"""
    return order_type_check(app("Implies", f1, f2), TRUE, points, bool_leaves, side, dont_care)


# ---------------------------------------------------------------------------
# deep canonical form of arithmetic / boolean expression templates
# ---------------------------------------------------------------------------
def canon(t):
    """canonical form used to compare expression templates: comparisons become canonical atoms, arithmetic becomes a
    sorted linear form over canonical leaves, And/Or/Sum arguments are sorted, `x if c == 1 else c * x` is `c * x`.
    canon(a) == canon(b) implies a and b denote the same function (integer semantics)."""
    t = _norm(_alpha(t, 0))
    return _canon(t)


def _canon(t):
    if not isinstance(t, tuple) or not t:
        return t
    k = t[0]
    if k == "phi" and len(t) == 4:
        g, a, b = t[1], t[2], t[3]
        # python-level negated test: (a if not g else b) is (b if g else a); `x != k` likewise
        while is_app(g, "not") and len(g) == 3:
            g, a, b = g[2], b, a
        if is_app(g, "!=") and len(g) == 4:
            g, a, b = app("==", g[2], g[3]), b, a
        # a special case that the general branch subsumes: (A if x == k else B) is B when B[x := k] is A
        # e.g. (d if c == 1 else c * d) == c * d
        if is_app(g, "==") and len(g) == 4 and (is_const(g[3]) or is_const(g[2])) and not (is_const(g[3]) and is_const(g[2])):
            x, kv = (g[2], g[3]) if is_const(g[3]) else (g[3], g[2])
            if isinstance(kv[1], int) and not isinstance(kv[1], bool):
                from .terms import substitute as _subst
                if _canon(_subst(b, {x: kv})) == _canon(a):
                    return _canon(b)
        return ("phi", _canon(g), _canon(a), _canon(b))
    if k == "app":
        op = t[1]
        if op in CMP_OPS and len(t) == 4 and not (is_boolish(t[2]) and op in ("==", "!=")):
            ca = canon_atom(("app", op, _canon_leafwise(t[2]), _canon_leafwise(t[3])))
            if ca is not None:
                return ("catom", ca[0], _lin_key(ca[1]))
        if op in ("+", "-", "*", "neg", "Sum"):
            return _lin_canon(t)
        if op == "If" and len(t) == 5:
            # If(c, a, b) is If(not c, b, a): one orientation - a Not() is stripped, of an integer comparison and its
            # negation (l <= 0 / -l + 1 <= 0) the one with the smaller key is kept
            c_, a_, b_ = t[2], t[3], t[4]
            while is_app(c_, "Not") and len(c_) == 3:
                c_, a_, b_ = c_[2], b_, a_
            ca = canon_atom(("app", c_[1], _canon_leafwise(c_[2]), _canon_leafwise(c_[3]))) \
                if (is_app(c_) and c_[1] in CMP_OPS and len(c_) == 4 and not is_boolish(c_[2])) else None
            if ca is not None and ca[0] == "le":
                neg = ("le", ca[1].scale(-1).add(Lin(const=1)))
                k1, k2 = ("catom", "le", _lin_key(ca[1])), ("catom", "le", _lin_key(neg[1]))
                if repr(k2) < repr(k1):
                    return ("app", "If", k2, _canon(b_), _canon(a_))
                return ("app", "If", k1, _canon(a_), _canon(b_))
            if ca is not None and ca[0] == "ne":
                return ("app", "If", _canon(app("==", c_[2], c_[3])), _canon(b_), _canon(a_))
            return ("app", "If", _canon(c_), _canon(a_), _canon(b_))
        if op in ("And", "Or"):
            args = sorted({repr(_canon(a)): _canon(a) for a in t[2:]}.items())
            return ("app", op) + tuple(v for _, v in args)
        if op in ("==", "!=", "Xor") and len(t) == 4:
            # symmetric operators (the arithmetic ==/!= were turned into canonical atoms above)
            a_, b_ = sorted([_canon(t[2]), _canon(t[3])], key=repr)
            return ("app", op, a_, b_)
        return ("app", op) + tuple(_canon(a) for a in t[2:])
    if k == "each":
        return ("each", tuple(_canon(l) for l in t[1]), tuple(sorted((_canon(g) for g in t[2]), key=repr)), _canon(t[3]))
    if not isinstance(k, str):
        return tuple(_canon(c) if isinstance(c, tuple) else c for c in t)
    return (k,) + tuple(_canon(c) if isinstance(c, tuple) else c for c in t[1:])


def _canon_leafwise(t):
    """arithmetic structure kept (lin() will flatten it), non arithmetic leaves canonicalised"""
    if is_app(t) and t[1] in ("+", "-", "*", "neg", "Sum"):
        return ("app", t[1]) + tuple(_canon_leafwise(a) for a in t[2:])
    if isinstance(t, tuple) and t and t[0] == "each":
        return ("each", t[1], tuple(sorted((_canon(g) for g in t[2]), key=repr)), _canon(t[3]))
    return _canon(t)


def lin_canon_leaves(l: Lin) -> Lin:
    """the same linear form with canonicalised leaves"""
    r = Lin(const=l.const)
    for leaf, c in l.coef.items():
        r = r.add(Lin({_canon(leaf): c}))
    return r


def _lin_key(l: Lin):
    return (tuple(sorted(((repr(leaf), str(c)) for leaf, c in l.coef.items()))), str(l.const))


def _lin_canon(t):
    return ("clin",) + _lin_key(lin(_canon_leafwise(t)))


# ---------------------------------------------------------------------------
# linear integer arithmetic: equivalence of two boolean combinations of linear atoms under a
# conjunction of linear side conditions (truth table over the atoms; each distinguishing assignment
# is tested for integer feasibility by Fourier-Motzkin elimination with an integer witness built by
# back-substitution).  Sound both ways: "equivalent" needs every distinguishing assignment to be
# infeasible over the rationals; "different" comes with integer values of the leaves.  A system that
# is feasible over the rationals but for which no integer point is found raises Undecided.
# ---------------------------------------------------------------------------
def _fm_solve(ineqs: List[Lin], order: List[tuple]):
    """ineqs: each `lin <= 0`.  Returns an integer assignment {leaf: int} or None (infeasible); raises Undecided"""
    import math
    systems = [list(ineqs)]
    elim = []
    cur = list(ineqs)
    for v in order:
        lower, upper, rest = [], [], []
        for q in cur:
            c = q.coef.get(v, 0)
            if c == 0:
                rest.append(q)
            elif c > 0:
                upper.append(q)      # c*v + r <= 0  ->  v <= -r/c
            else:
                lower.append(q)      # c*v + r <= 0, c<0 -> v >= r/(-c)
        for lo_ in lower:
            for up in upper:
                a, b = -lo_.coef[v], up.coef[v]
                comb = lo_.scale(b).add(up.scale(a))
                comb.coef.pop(v, None)
                rest.append(comb)
        elim.append((v, lower, upper))
        # drop trivially true, detect contradiction
        nxt = []
        seen = set()
        for q in rest:
            if q.is_const():
                if q.const > 0:
                    return None
                continue
            k = (q.key())
            if k in seen:
                continue
            seen.add(k)
            nxt.append(q)
        if len(nxt) > 4000:
            raise Undecided("Fourier-Motzkin blow-up")
        cur = nxt
    for q in cur:
        if q.is_const() and q.const > 0:
            return None
    # back-substitution with integer choices
    val: Dict[tuple, int] = {}

    def ev(q: Lin, skip):
        s = q.const
        for t, c in q.coef.items():
            if t == skip:
                continue
            s += c * val[t]
        return s
    for v, lower, upper in reversed(elim):
        lo_b, hi_b = None, None
        for q in lower:
            c = -q.coef[v]
            b = Fraction(ev(q, v)) / c          # v >= b
            b = math.ceil(b)
            lo_b = b if lo_b is None else max(lo_b, b)
        for q in upper:
            c = q.coef[v]
            b = Fraction(-ev(q, v)) / c         # v <= b
            b = math.floor(b)
            hi_b = b if hi_b is None else min(hi_b, b)
        if lo_b is not None and hi_b is not None and lo_b > hi_b:
            raise Undecided("feasible over the rationals, no integer point found by back-substitution")
        if lo_b is not None:
            val[v] = lo_b
        elif hi_b is not None:
            val[v] = hi_b
        else:
            val[v] = 0
    return val


def linear_equiv(f1, f2, side: Sequence[tuple] = (), dont_care=None, max_atoms=12):
    """(equivalent?, witness) for two boolean combinations of linear comparison atoms over integer leaves.
    `side`: comparison atoms assumed to hold.  `dont_care`: a formula; assignments satisfying it are skipped."""
    forms = [f1, f2] + ([dont_care] if dont_care is not None else [])
    atoms: List[tuple] = []
    for f in forms:
        for a in collect_atoms(f):
            if a not in atoms:
                atoms.append(a)
    ids: List = []
    cas = {}
    for a in atoms:
        i, _ = _atom_id(a)
        if i not in ids:
            ids.append(i)
            ca = canon_atom(a)
            cas[i] = ca if ca is None or ca[0] != "ne" else ("eq", ca[1])
    if len(ids) > max_atoms:
        raise Undecided(f"{len(ids)} atoms")
    side_ineqs: List[Lin] = []
    for s_ in side:
        ca = canon_atom(s_)
        if ca is None:
            raise Undecided(f"side condition is not a linear comparison: {show(s_)[:80]}")
        if ca[0] == "le":
            side_ineqs.append(ca[1])
        elif ca[0] == "eq":
            side_ineqs += [ca[1], ca[1].scale(-1)]
        else:
            raise Undecided("disequality as side condition")
    n_checked = 0
    for bits in itertools.product([False, True], repeat=len(ids)):
        val = dict(zip(ids, bits))

        def lv(a):
            i, neg = _atom_id(a)
            return (not val[i]) if neg else val[i]

        if dont_care is not None and eval_formula(dont_care, lv):
            continue
        v1, v2 = eval_formula(f1, lv), eval_formula(f2, lv)
        if v1 == v2:
            continue
        # integer feasibility of this assignment
        base = list(side_ineqs)
        splits = [[]]
        for i in ids:
            ca = cas[i]
            if ca is None:
                continue            # boolean leaf: free
            l = ca[1]
            if ca[0] == "le":
                base.append(l if val[i] else l.scale(-1).add(Lin(const=1)))
            else:  # eq
                if val[i]:
                    base += [l, l.scale(-1)]
                else:
                    splits = [s + [x] for s in splits for x in (l.add(Lin(const=1)), l.scale(-1).add(Lin(const=1)))]
        for extra in splits:
            sys_ = base + extra
            leaves = []
            for q in sys_:
                for t in q.coef:
                    if t not in leaves:
                        leaves.append(t)
            leaves.sort(key=show)
            n_checked += 1
            w = _fm_solve(sys_, leaves)
            if w is not None:
                return False, {"values": {show(k)[:60]: v for k, v in w.items()},
                               "first": v1, "second": v2}
    return True, {"distinguishing assignments refuted": n_checked}


# ---------------------------------------------------------------------------
# guarded sums: Sum(*(body_i for <loops> if guards_i), ...) compared by cases over the guard atoms.
# Two sums over the same loops denote the same function iff, for every consistent truth assignment of the atoms that
# occur in their guards, the bodies selected on both sides add up to the same linear form (after substituting x := k for
# every equality atom `x == k` that is true in the assignment).  Consistency of an assignment is integer feasibility of its
# arithmetic atoms (Fourier-Motzkin); non arithmetic atoms are independent booleans.
# ---------------------------------------------------------------------------
def _flat_guards(gs):
    out = []
    for g in gs:
        if is_app(g, "and") or is_app(g, "And"):
            out.extend(_flat_guards(g[2:]))
        else:
            out.append(g)
    return out


def guarded_sum_equiv(sum1, sum2, max_atoms=10):
    """(ok, witness) for two `Sum(...)` terms (arguments: plain terms and `each` items)"""
    from .terms import substitute as _subst

    def items_of(s):
        s = _norm(_alpha(s, 0))
        args = s[2:] if is_app(s, "Sum") else (s,)
        if len(args) == 1 and isinstance(args[0], tuple) and args[0] and args[0][0] == "list":
            args = args[0][1]
        groups: Dict[str, List[tuple]] = {}
        for a in args:
            if isinstance(a, tuple) and a and a[0] == "each":
                key = repr(tuple(_canon(l) for l in a[1]))
                groups.setdefault(key, []).append((tuple(_flat_guards(a[2])), a[3]))
            else:
                groups.setdefault("<plain>", []).append(((), a))
        return groups

    g1, g2 = items_of(sum1), items_of(sum2)
    if set(g1) != set(g2):
        return False, {"loops": "the two sums do not range over the same loops", "first": sorted(g1)[:3], "second": sorted(g2)[:3]}
    for key in g1:
        it1, it2 = g1[key], g2[key]
        atoms: List[tuple] = []
        for gs, body in it1 + it2:
            conds = list(gs) + [x[1] for x in subterms(body) if isinstance(x, tuple) and x and x[0] == "phi" and len(x) == 4]
            def atoms_of(g):
                if is_app(g) and g[1] in ("not", "and", "or"):
                    for x in g[2:]:
                        atoms_of(x)
                    return
                for a in collect_atoms(g):
                    if is_app(a) and a[1] in ("not", "and", "or"):
                        atoms_of(a)
                    elif a not in atoms:
                        atoms.append(a)
            for g in conds:
                atoms_of(g)
        ids, cas = [], {}
        for a in atoms:
            i, _ = _atom_id(a)
            if i not in ids:
                ids.append(i)
                ca = canon_atom(a)
                cas[i] = ca if ca is None or ca[0] != "ne" else ("eq", ca[1])
        if len(ids) > max_atoms:
            raise Undecided(f"{len(ids)} guard atoms")
        for bits in itertools.product([False, True], repeat=len(ids)):
            val = dict(zip(ids, bits))

            def lv(a):
                if is_app(a) and a[1] in ("not", "and", "or"):
                    return ev(a)
                i, neg = _atom_id(a)
                return (not val[i]) if neg else val[i]

            def ev(g):
                if is_app(g, "not") and len(g) == 3:
                    return not ev(g[2])
                if is_app(g, "and"):
                    return all(ev(x) for x in g[2:])
                if is_app(g, "or"):
                    return any(ev(x) for x in g[2:])
                return eval_formula(g, lv)
            # consistency of the arithmetic atoms
            base, splits, subst = [], [[]], {}
            for i in ids:
                ca = cas[i]
                if ca is None:
                    continue
                l = ca[1]
                if ca[0] == "le":
                    base.append(l if val[i] else l.scale(-1).add(Lin(const=1)))
                elif val[i]:
                    base += [l, l.scale(-1)]
                    if len(l.coef) == 1:
                        (leaf, c), = l.coef.items()
                        if c in (1, -1) and (l.const / -c).denominator == 1:
                            subst[leaf] = K(int(-l.const / c))
                else:
                    splits = [s + [x] for s in splits for x in (l.add(Lin(const=1)), l.scale(-1).add(Lin(const=1)))]
            feasible = False
            for extra in splits:
                sys_ = base + extra
                leaves = sorted({t for q in sys_ for t in q.coef}, key=show)
                if not sys_ or _fm_solve(sys_, leaves) is not None:
                    feasible = True
                    break
            if not feasible:
                continue

            def resolve(b):
                if not isinstance(b, tuple) or not b:
                    return b
                if b[0] == "phi" and len(b) == 4:
                    return resolve(b[2] if ev(b[1]) else b[3])
                return tuple(resolve(c) if isinstance(c, tuple) else c for c in b)

            def total(items):
                r = Lin()
                for gs, body in items:
                    if all(ev(g) for g in gs):
                        body = resolve(body)
                        r = r.add(lin(_canon_leafwise(_subst(body, subst)) if subst else _canon_leafwise(body)))
                return _lin_key(r)
            t1, t2 = total(it1), total(it2)
            if t1 != t2:
                return False, {"assignment": {show(a)[:80]: lv(a) for a in atoms}, "first": str(t1)[:200], "second": str(t2)[:200]}
    return True, {"decided_by": "case analysis over the guard atoms"}
