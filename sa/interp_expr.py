"""E2 (part 1): expression translation of the encoder-IR extractor.

Syntax-directed translation of python expressions into the term IR.  Nothing
from the repository is executed; python-level constants are folded, everything
else stays symbolic.
"""
from __future__ import annotations

import ast
import operator
from typing import Any, Dict, List, Optional, Set, Tuple

from . import project as P
from .config import Config, Dom
from .terms import K, TRUE, FALSE, NONE, app, is_app, is_const, show, mkphi
from .values import (Item, PyList, PyDict, Closure, BoundMethod, ClassRef, ModuleRef, ExtRef, BuiltinMethod,
                     SuperRef, Site, Emission, Event)

UNBOUND = ("k", "<unbound>")

Z3_OPS = {"And", "Or", "Not", "Xor", "Implies", "If", "Sum", "PbGe", "PbLe", "PbEq", "ForAll", "Exists", "Store",
          "Select", "Distinct", "Product", "ToReal", "ToInt", "Abs"}
Z3_VARIADIC = {"And", "Or", "Sum", "Distinct", "Product"}
Z3_CONSTS = {"Int": "Int", "Bool": "Bool", "Real": "Real"}
Z3_FRESH = {"FreshInt": "Int", "FreshBool": "Bool", "FreshReal": "Real"}

BINOPS = {ast.Add: "+", ast.Sub: "-", ast.Mult: "*", ast.Div: "/", ast.FloorDiv: "//", ast.Mod: "%", ast.Pow: "**",
          ast.BitAnd: "&", ast.BitOr: "|", ast.BitXor: "^", ast.LShift: "<<", ast.RShift: ">>"}
CMPOPS = {ast.Eq: "==", ast.NotEq: "!=", ast.Lt: "<", ast.LtE: "<=", ast.Gt: ">", ast.GtE: ">=",
          ast.Is: "is", ast.IsNot: "isnot", ast.In: "in", ast.NotIn: "notin"}
PYFOLD = {"+": operator.add, "-": operator.sub, "*": operator.mul, "/": operator.truediv, "//": operator.floordiv,
          "%": operator.mod, "**": operator.pow, "==": operator.eq, "!=": operator.ne, "<": operator.lt,
          "<=": operator.le, ">": operator.gt, ">=": operator.ge}

STATIC_HEADS = ("sym", "glob")

_LB = ("list", ("z3", "BoolRef"))
_LA = ("list", ("z3", "ArithRef"))
# result types of repository helpers kept opaque at their call sites (their bodies are checked by R-SORT-NET / R-MINMAX)
OPAQUE_RETURN_TYPES = {
    "util.sort_no_duplicates": ("tuple", (_LA, _LB)),
    "util.sort_duplicates": ("tuple", (_LA, _LB)),
    "util.get_maximum": _LB,
    "util.get_minimum": _LB,
}

# declared annotations that are known to be inaccurate; each override is justified by the single writer of the
# registry (checked by R-DUP-NAME / C18): add_objective(objective: Objective) is the only writer of `objectives`
FIELD_TYPE_OVERRIDES = {
    ("SchedulingProblem", "objectives"): ("dict", ("prim", "str"), ("cls", "Objective")),
}


class ExprMixin:
    # ------------------------------------------------------------------
    # value <-> term
    # ------------------------------------------------------------------
    def to_term(self, v):
        if isinstance(v, tuple):
            return v
        if isinstance(v, (PyList, PyDict)) and not getattr(self, "_quiet_reads", 0) and hasattr(self, "grown_in_running_loop"):
            g = self.grown_in_running_loop(v)
            if g is not None:
                # read as a whole while the loop that modifies it is running: the state after the iterations so far
                sofar = self._safe_term(v)
                self.event("prefix-read", {"loop": g[1], "list": sofar}, None)
                return ("carried", g[0], g[1], sofar)
        if isinstance(v, PyList):
            items = []
            cur = getattr(self, "loops", ())
            if cur and v.items and not getattr(self, "_quiet_reads", 0):
                # a list created outside a loop of the current nest, filled inside it and read while that loop is still
                # running: python sees the items of the iterations so far only (a prefix in iteration order), the term
                # below ranges over all of them
                for it in v.items:
                    shared = [l for l in it.loops if l in cur and l not in v.base_loops]
                    if shared:
                        self.event("prefix-read", {"loop": shared[0], "list": ("each", it.loops, it.guards, self._safe_term(it.value))}, None)
                        break
            for it in v.items:
                val = self.to_term(it.value)
                if it.loops or it.guards:
                    items.append(("each", it.loops, it.guards, val))
                else:
                    items.append(val)
            return ("list", tuple(items))
        if isinstance(v, PyDict):
            ents = []
            for (k, val, loops, guards) in v.entries:
                pair = ("tuple", (self.to_term(k), self.to_term(val)))
                ents.append(("each", loops, guards, pair) if (loops or guards) else pair)
            return ("dict", tuple(ents))
        if isinstance(v, Closure):
            t_ = ("closure", v.qual or getattr(v.fn, "name", "lambda"), getattr(v.fn, "lineno", 0), getattr(v.fn, "col_offset", 0))
            if not hasattr(self, "_closure_of_term"):
                self._closure_of_term = {}
            self._closure_of_term[t_] = v        # a function stored in a table and read back is still that function
            return t_
        if isinstance(v, BoundMethod):
            return ("boundmethod", self.to_term(v.recv), v.fn.name)
        if isinstance(v, ClassRef):
            return ("class", v.cls.name)
        if isinstance(v, ModuleRef):
            return ("module", v.name)
        if isinstance(v, ExtRef):
            return ("ext", v.dotted)
        if isinstance(v, BuiltinMethod):
            return ("boundmethod", self.to_term(v.recv), v.name)
        if isinstance(v, SuperRef):
            return ("super", self.to_term(v.self_obj))
        return ("unk", f"value {type(v).__name__}")

    def _safe_term(self, v):
        self._quiet_reads = getattr(self, "_quiet_reads", 0) + 1
        try:
            return self.to_term(v)
        finally:
            self._quiet_reads -= 1

    def guard_term(self, v):
        """term of a value used as a python-level condition whose truth is not decided"""
        if isinstance(v, (PyList, PyDict)):
            items = v.items if isinstance(v, PyList) else v.entries
            if not items:
                return app("nonempty", ("unk", "container filled by another iteration of the enclosing loop"))
            return app("nonempty", self.to_term(v))
        return self.to_term(v)

    def ref_term(self, v):
        """term used when a container is *referred to* (subscripted, iterated): its origin if it has one"""
        if isinstance(v, (PyList, PyDict)) and v.origin is not None:
            return v.origin
        return self.to_term(v)

    # ------------------------------------------------------------------
    # static typing of terms (E1 receiver typing)
    # ------------------------------------------------------------------
    def typeof(self, t) -> Optional[tuple]:
        if isinstance(t, PyList):
            return ("list", ("prim", "any"))
        if isinstance(t, PyDict):
            return ("dict", ("prim", "any"), ("prim", "any"))
        if not isinstance(t, tuple) or not t:
            return None
        k = t[0]
        if k == "k":
            v = t[1]
            if v is None:
                return ("none",)
            if isinstance(v, bool):
                return ("prim", "bool")
            if isinstance(v, int):
                return ("int", v, v)
            if isinstance(v, str):
                return ("prim", "str")
            return None
        if k == "sym":
            ty = self.symtypes.get(t[1])
            return self._narrow(t, ty)
        if k == "glob":
            if t[1] == "processscheduler.base.active_problem":
                return ("cls", "SchedulingProblem")
            return None
        if k == "obj":
            return ("cls", t[1])
        if k == "attr":
            bt = self.typeof(t[1])
            res = []
            for cname in P.type_classes(bt) if bt else []:
                if (cname, t[2]) in FIELD_TYPE_OVERRIDES:
                    return FIELD_TYPE_OVERRIDES[(cname, t[2])]
            for cname in P.type_classes(bt) if bt else []:
                ci = self.project.classes.get(cname)
                if ci is None:
                    continue
                f = ci.all_fields().get(t[2])
                if f is not None:
                    res.append(f.type)
                    continue
                pt = self.private_attr_type(ci, t[2])
                if pt is not None:
                    res.append(pt)
            if not res:
                return None
            return self._narrow(t, P.t_union(res))
        if k == "elem":
            return self._narrow(t, self._elem_type(t[1][3]))
        if k == "idx":
            bt = self.typeof(t[1])
            if bt is None:
                return None
            out = []
            for a in P.type_alternatives(bt):
                if a[0] == "list":
                    out.append(a[1])
                elif a[0] == "dict":
                    out.append(a[2])
                elif a[0] == "tuple" and is_const(t[2]) and isinstance(t[2][1], int) and -len(a[1]) <= t[2][1] < len(a[1]):
                    out.append(a[1][t[2][1]])
            return P.t_union(out) if out else None
        if k == "phi":
            a, b = self.typeof(t[2]), self.typeof(t[3])
            if a and b:
                return P.t_union([a, b])
            return a or b
        if k == "z3var":
            return ("z3", "BoolRef" if t[1] == "Bool" else "ArithRef")
        if k == "fresh":
            return ("z3", "ArithRef")
        if k == "app":
            if t[1] in ("And", "Or", "Not", "Xor", "Implies", "PbGe", "PbLe", "PbEq", "ForAll"):
                return ("z3", "BoolRef")
            return None
        if k == "list":
            return ("list", ("prim", "any"))
        if k == "call" and t[1] in OPAQUE_RETURN_TYPES:
            return OPAQUE_RETURN_TYPES[t[1]]
        if k == "mcall":
            bt = self.typeof(t[1])
            if bt is not None and t[2] in ("values", "keys", "items", "copy"):
                outs = []
                for a in P.type_alternatives(bt):
                    if a[0] == "dict":
                        outs.append(("list", {"values": a[2], "keys": a[1], "items": ("tuple", (a[1], a[2])), "copy": a}[t[2]]))
                    elif a[0] == "list" and t[2] == "copy":
                        outs.append(a)
                return P.t_union(outs) if outs else None
        return None

    def _narrow(self, t, ty):
        d = self.config.doms.get(t)
        if d is None or ty is None:
            return ty
        alts = P.type_alternatives(ty)
        if d.classes is not None:
            keep = [("cls", c) for c in sorted(d.classes)]
            others = [a for a in alts if a[0] != "cls" and a != ("none",)]
            alts = keep + others + ([("none",)] if d.can_none else [])
        elif not d.can_none:
            alts = [a for a in alts if a != ("none",)]
        return P.t_union(alts) if alts else ty

    def _elem_type(self, it):
        ty = self.typeof(it)
        if ty is None:
            if isinstance(it, tuple) and it and it[0] == "call" and it[1] == "zip":
                parts = [self._elem_type(a) for a in it[2]]
                if all(p is not None for p in parts):
                    return ("tuple", tuple(parts))
            return None
        out = []
        for a in P.type_alternatives(ty):
            if a[0] == "list":
                out.append(a[1])
            elif a[0] == "dict":
                out.append(a[1])
        return P.t_union(out) if out else None

    def private_attr_type(self, ci, name):
        key = (ci.name, name)
        if key in self._ptype_cache:
            return self._ptype_cache[key]
        if name == "_z3_assertions":
            # filled one z3.BoolRef at a time by NamedUIDObject.append_z3_assertion (R-BASE-STORE checks that)
            return ("list", ("z3", "BoolRef"))
        res = []
        for c in ci.mro:
            for fn in c.methods.values():
                for n in ast.walk(fn):
                    if isinstance(n, ast.Assign):
                        for tg in n.targets:
                            if isinstance(tg, ast.Attribute) and isinstance(tg.value, ast.Name) and tg.value.id == "self" \
                                    and tg.attr == name:
                                ty = self._rhs_type(n.value, c.module, fn)
                                if ty is not None:
                                    res.append(ty)
        out = P.t_union(res) if res else None
        self._ptype_cache[key] = out
        return out

    PYDANTIC_ATTRS = {"model_dump_json", "model_dump", "model_validate_json", "model_validate", "model_fields", "model_config",
                      "model_copy", "copy", "dict", "json"}

    def has_attr(self, ci, name) -> bool:
        """does class ci (its MRO) declare `name`: field, method, class attribute or an attribute some method assigns"""
        key = ("has", ci.name, name)
        if key in self._ptype_cache:
            return self._ptype_cache[key]
        res = name in self.PYDANTIC_ATTRS
        for c in ci.mro:
            if res:
                break
            if name in c.fields or name in c.methods:
                res = True
                break
            for st in c.node.body:
                if isinstance(st, ast.Assign) and any(isinstance(t, ast.Name) and t.id == name for t in st.targets):
                    res = True
            for fn in c.methods.values():
                for n in ast.walk(fn):
                    tg = []
                    if isinstance(n, ast.Assign):
                        tg = n.targets
                    elif isinstance(n, (ast.AugAssign, ast.AnnAssign)):
                        tg = [n.target]
                    for t in tg:
                        for x in ast.walk(t):
                            if isinstance(x, ast.Attribute) and isinstance(x.value, ast.Name) and x.value.id == "self" \
                                    and x.attr == name and isinstance(x.ctx, ast.Store):
                                res = True
        self._ptype_cache[key] = res
        return res

    def _local_type(self, fn, name, module, depth=0):
        """type of a local variable of `fn` from the way the function builds it: its assignments, and for a list the
        arguments of its .append() calls"""
        if fn is None or depth > 3:
            return None
        tys, elts = [], []
        for n in ast.walk(fn):
            if isinstance(n, ast.Assign) and any(isinstance(t, ast.Name) and t.id == name for t in n.targets):
                ty = self._rhs_type(n.value, module, fn, depth + 1)
                if ty is not None:
                    tys.append(ty)
            elif isinstance(n, ast.Call) and isinstance(n.func, ast.Attribute) and n.func.attr == "append" \
                    and isinstance(n.func.value, ast.Name) and n.func.value.id == name and len(n.args) == 1:
                et = self._rhs_type(n.args[0], module, fn, depth + 1)
                if et is not None:
                    elts.append(et)
        if elts and tys and all(t[0] == "list" for t in tys):
            return ("list", P.t_union(elts))
        return P.t_union(tys) if tys else None

    def _rhs_type(self, v, module, fn=None, depth=0):
        if isinstance(v, ast.Name) and fn is not None:
            return self._local_type(fn, v.id, module, depth)
        if isinstance(v, ast.Call):
            f = v.func
            if isinstance(f, ast.Attribute) and isinstance(f.value, ast.Name) and f.value.id == "z3":
                if f.attr in ("Int", "FreshInt"):
                    return ("z3", "ArithRef")
                if f.attr == "Bool":
                    return ("z3", "BoolRef")
            if isinstance(f, ast.Name) and f.id in self.project.classes:
                return ("cls", f.id)
            return ("prim", "any")
        if isinstance(v, ast.List):
            return ("list", ("prim", "any"))
        if isinstance(v, ast.ListComp):
            et = self._rhs_type(v.elt, module, fn, depth)
            return ("list", et or ("prim", "any"))
        if isinstance(v, ast.Dict):
            return ("dict", ("prim", "any"), ("prim", "any"))
        if isinstance(v, ast.Constant):
            if isinstance(v.value, bool):
                return ("prim", "bool")
            if v.value is None:
                return ("none",)
            if isinstance(v.value, int):
                return ("int", None, None)
        return None

    def classes_of(self, t) -> List[P.ClassInfo]:
        ty = self.typeof(t)
        out = []
        for cname in P.type_classes(ty) if ty else []:
            ci = self.project.classes.get(cname)
            if ci is not None and ci not in out:
                out.append(ci)
        return out

    # ------------------------------------------------------------------
    # static leaves and their domains
    # ------------------------------------------------------------------
    def is_static(self, t) -> bool:
        """term made only of pydantic-field paths from self/parameters/globals and constants"""
        if not isinstance(t, tuple):
            return False
        k = t[0]
        if k == "k":
            return True
        if k == "sym":
            return t[1] in self.static_syms
        if k == "glob":
            return True
        if k == "attr":
            if t[2].startswith("_"):
                return False
            return self.is_static(t[1])
        if k == "idx":
            return self.is_static(t[1]) and is_const(t[2])
        if k == "call" and t[1] == "len" and len(t[2]) == 1:
            return self.is_static(t[2][0])
        return False

    def init_dom(self, leaf) -> Dom:
        d = Dom()
        ty = self.typeof(leaf)
        if leaf[0] == "call":      # len(...)
            d.is_int, d.lo = True, 0
            lt = self.typeof(leaf[2][0])
            fi = self._field_of(leaf[2][0])
            if fi is not None and "min_length" in fi.constraints:
                d.lo = fi.constraints["min_length"]
            return d
        if leaf[0] == "glob":
            d.can_none = True
            return d
        fi = self._field_of(leaf)
        if fi is not None:
            d.can_none = fi.may_be_none()
        elif leaf[0] == "sym":
            d.can_none = leaf[1] != "self"      # python does not enforce parameter annotations
        elif ty is not None:
            d.can_none = P.type_allows_none(ty)
        if ty is not None:
            alts = [a for a in P.type_alternatives(ty) if a != ("none",)]
            if alts and all(a[0] == "literal" for a in alts):
                d.vals = set(v for a in alts for v in a[1])
            elif alts and all(a[0] == "prim" and a[1] in ("bool", "strictbool") for a in alts):
                d.vals = {True, False}
            elif alts and all(a[0] == "int" for a in alts):
                d.is_int = True
                iv = fi.int_interval() if fi is not None else (alts[0][1], alts[0][2])
                if iv:
                    d.lo, d.hi = iv
            cl = [a[1] for a in alts if a[0] == "cls"]
            if cl and len(cl) == len(alts):
                names: Set[str] = set()
                for c in cl:
                    if c in self.project.classes:
                        for s in self.project.subclasses(c, strict=False):
                            names.add(s.name)
                if names:
                    d.classes = names
        return d

    def _field_of(self, leaf):
        if isinstance(leaf, tuple) and leaf and leaf[0] == "attr":
            for ci in self.classes_of(leaf[1]):
                f = ci.all_fields().get(leaf[2])
                if f is not None:
                    return f
        return None

    def dom(self, leaf) -> Dom:
        if leaf not in self.config.doms:
            self.config.doms[leaf] = self.init_dom(leaf)
        return self.config.doms[leaf]

    # ------------------------------------------------------------------
    # truth of a python-level guard: True / False / None (residual)
    # ------------------------------------------------------------------
    def truth(self, v) -> Optional[bool]:
        if isinstance(v, PyList):
            if any(not it.loops and not it.guards for it in v.items):
                return True
            if not v.items:
                # a list created outside the loop being translated may have been filled by an earlier iteration
                if len(self.loops) > len(v.base_loops):
                    return None
                return False
            return None
        if isinstance(v, PyDict):
            if not v.entries:
                return False
            return None
        if isinstance(v, (Closure, BoundMethod, ClassRef, ModuleRef, ExtRef, BuiltinMethod)):
            return True
        if not isinstance(v, tuple):
            return None
        if v[0] == "k":
            return bool(v[1])
        if v[0] in ("list", "tuple"):
            if not v[1]:
                return False
            if any(not (isinstance(i, tuple) and i and i[0] == "each") for i in v[1]):
                return True
            return None
        if v[0] == "obj":
            return True
        if is_app(v, "not"):
            r = self.truth(v[2])
            return None if r is None else (not r)
        if is_app(v, "and"):
            l = self.truth(v[2])
            if l is False:
                return False
            r = self.truth(v[3])
            if l is True:
                return r
            return False if r is False else None
        if is_app(v, "or"):
            l = self.truth(v[2])
            if l is True:
                return True
            r = self.truth(v[3])
            if l is False:
                return r
            return True if r is True else None
        if is_app(v) and v[1] in ("==", "!=", "is", "isnot") and len(v) == 4:
            a, b = v[2], v[3]
            if is_const(a) and not is_const(b):
                a, b = b, a
            if is_const(b) and self.is_static(a) and not is_const(a):
                r = self.config.test_eq(a, self.dom(a), b[1])
                return r if v[1] in ("==", "is") else (not r)
            return None
        if is_app(v) and v[1] in ("<", "<=", ">", ">=") and len(v) == 4:
            a, b, op = v[2], v[3], v[1]
            if is_const(a) and not is_const(b):
                a, b = b, a
                op = {"<": ">", "<=": ">=", ">": "<", ">=": "<="}[op]
            if is_const(b) and isinstance(b[1], int) and not isinstance(b[1], bool) and self.is_static(a) \
                    and not is_const(a):
                d = self.dom(a)
                ty = self.typeof(a)
                if d.is_int or (ty is None and a[0] == "sym"):
                    d.is_int = True
                    return self.config.test_cmp(a, d, op, b[1])
            return None
        if is_app(v, "isinstance"):
            x, names = v[2], v[3][1]
            st = self.static_isinstance(x, names)
            if st is not None:
                return st
            if self.is_static(x) or self._typed_elem(x):
                sub: Set[str] = set()
                for n in names:
                    if n in self.project.classes:
                        sub |= {c.name for c in self.project.subclasses(n, strict=False)}
                d = self.dom(x)
                if d.classes is None:
                    return self.config.test_opaque(f"isinstance({show(x)}, {'|'.join(names)})")
                return self.config.test_isinstance(x, d, sub)
            return None
        if is_app(v, "in") or is_app(v, "notin"):
            return None
        if self.is_static(v):
            return self.config.test_truthy(v, self.dom(v))
        return None

    def _typed_elem(self, x) -> bool:
        """a loop element whose static type is known: the kind of element is a per-element
        configuration (the loop body is translated once per kind)"""
        if isinstance(x, tuple) and x and x[0] == "elem":
            ty = self.typeof(x)
            return ty is not None and ty != ("prim", "any")
        return False

    def static_isinstance(self, x, names) -> Optional[bool]:
        """isinstance decided from the shape / static type of the value"""
        if isinstance(x, PyList):
            x = ("list", ())
        if not isinstance(x, tuple):
            return None
        want_list = "list" in names
        want_bool = "z3.BoolRef" in names
        want_int = "int" in names
        k = x[0]
        if k == "phi" and len(x) == 4:
            # a value chosen by a conditional: decided when both alternatives agree
            a_, b_ = self.static_isinstance(x[2], names), self.static_isinstance(x[3], names)
            return a_ if a_ is not None and a_ == b_ else None
        if k == "list":
            return want_list
        if k == "k":
            v = x[1]
            if isinstance(v, bool):
                return "bool" in names or want_int
            if isinstance(v, int):
                return want_int
            if isinstance(v, str):
                return "str" in names
            if v is None:
                return False
            return None
        ty = self.typeof(x)
        if ty is None:
            if k == "app" and x[1] in ("<", "<=", ">", ">=", "==", "!="):
                return want_bool if (want_bool or want_list) and len(names) == 1 else None
            if k == "app" and x[1] in Z3_OPS and names == ("list",):
                return False            # a z3 expression is not a python list
            if k in ("z3var", "fresh") and names == ("list",):
                return False
            return None
        alts = P.type_alternatives(ty)
        res = set()
        for a in alts:
            if a[0] == "list":
                res.add(want_list)
            elif a[0] == "z3":
                res.add(("z3." + a[1]) in names)
            elif a[0] == "cls":
                ci = self.project.classes.get(a[1])
                if ci is None:
                    return None
                hit = any(ci.is_subclass_of(n) for n in names)
                if hit:
                    res.add(True)
                else:
                    # a subclass of the static type could still match
                    may = any(s.is_subclass_of(n) for n in names for s in self.project.subclasses(a[1]))
                    res.add(None if may else False)
            elif a[0] == "int":
                res.add(want_int)
            elif a[0] == "prim" and a[1] in ("bool", "strictbool"):
                res.add("bool" in names or want_int)
            elif a == ("none",):
                res.add(False)
            else:
                return None
        if len(res) == 1:
            return next(iter(res))
        return None

    # ------------------------------------------------------------------
    # expressions
    # ------------------------------------------------------------------
    def eval(self, node):
        m = getattr(self, "e_" + type(node).__name__, None)
        if m is None:
            self.unknown(f"expression {type(node).__name__}", node)
            return ("unk", f"expr {type(node).__name__}")
        return m(node)

    def e_Constant(self, node):
        return K(node.value)

    def e_Name(self, node):
        name = node.id
        env = self.frame.env
        if name in env:
            return env[name]
        for cenv in self.frame.closure_envs:
            if name in cenv:
                return cenv[name]
        if name in ("True", "False", "None"):
            return K({"True": True, "False": False, "None": None}[name])
        r = self.project.resolve_name(self.frame.module, name)
        if r is not None:
            if r[0] == "class":
                return ClassRef(r[1])
            if r[0] == "func":
                return Closure(r[2], r[1], {}, qual=f"{r[1].short}.{r[2].name}")
            if r[0] == "module":
                return ModuleRef(r[1])
            if r[0] == "ext":
                return ExtRef(r[1])
        if name in self.frame.module.globals_assigned:
            tbl = self._constant_table(self.frame.module, name)
            if tbl is not None:
                return tbl
            return ("glob", f"{self.frame.module.name}.{name}")
        return ExtRef("builtins." + name)

    def _constant_table(self, module, name):
        """a module-level dict / list / tuple display that nothing in the package ever writes is a constant: its value is
        the display itself (a dispatch table such as {"lax": operator.le, ...})"""
        v = module.globals_assigned.get(name)
        if not isinstance(v, (ast.Dict, ast.List, ast.Tuple)):
            return None
        cache = getattr(self.project, "_const_table_written", None)
        if cache is None:
            cache = self.project._const_table_written = {}
        key = (module.name, name)
        if key not in cache:
            written = False
            for mm in self.project.modules.values():
                for x in ast.walk(mm.tree):
                    tgt = None
                    if isinstance(x, ast.Subscript) and isinstance(x.ctx, (ast.Store, ast.Del)):
                        tgt = x.value
                    elif isinstance(x, ast.Call) and isinstance(x.func, ast.Attribute) and x.func.attr in (
                            "append", "update", "add", "extend", "pop", "clear", "setdefault", "insert", "remove", "popitem", "sort", "reverse"):
                        tgt = x.func.value
                    elif isinstance(x, ast.AugAssign):
                        tgt = x.target
                    if tgt is not None and ast.unparse(tgt).split(".")[-1] == name:
                        written = True
                    if isinstance(x, ast.Global) and name in x.names:
                        written = True
            cache[key] = written
        if cache[key]:
            return None
        saved = self.frames[-1]
        fr = type(saved)(module, f"{module.short}.<module>", {})
        self.frames.append(fr)
        try:
            return self.eval(v)
        finally:
            self.frames.pop()

    def e_JoinedStr(self, node):
        parts = []
        for v in node.values:
            if isinstance(v, ast.Constant):
                parts.append(K(v.value))
            else:
                parts.append(self.to_term(self.eval(v.value)))
        if all(is_const(p) for p in parts):
            return K("".join(str(p[1]) for p in parts))
        flat = []
        for q in parts:
            for r in (q[1] if (isinstance(q, tuple) and q and q[0] == "fstr") else (q,)):
                if flat and is_const(r) and isinstance(r[1], str) and is_const(flat[-1]) and isinstance(flat[-1][1], str):
                    flat[-1] = K(flat[-1][1] + r[1])
                else:
                    flat.append(r)
        return ("fstr", tuple(flat))

    def e_FormattedValue(self, node):
        return self.to_term(self.eval(node.value))

    def e_Tuple(self, node):
        return ("tuple", tuple(self.to_term(self.eval(e)) for e in node.elts))

    def e_List(self, node):
        lst = PyList(base_loops=self.loops, base_guards=self.eff_guards())
        for e in node.elts:
            if isinstance(e, ast.Starred):
                self._extend(lst, self.eval(e.value))
            else:
                lst.items.append(Item(self.eval(e)))
        return lst

    def e_Set(self, node):
        return ("set", tuple(self.to_term(self.eval(e)) for e in node.elts))

    def e_Dict(self, node):
        d = PyDict(base_loops=self.loops, base_guards=self.eff_guards())
        for k, v in zip(node.keys, node.values):
            if k is None:
                self.unknown("dict unpacking", node)
                continue
            d.entries.append((self.to_term(self.eval(k)), self.eval(v), (), ()))
        return d

    def e_Yield(self, node):
        lst = self.frame.yields
        if lst is None:
            self.unknown("yield outside an inlined generator function", node)
            return ("unk", "yield")
        val = self.eval(node.value) if node.value is not None else NONE
        lst.items.append(Item(val, self._rel_loops(lst), self._rel_guards(lst)))
        return NONE

    def e_YieldFrom(self, node):
        lst = self.frame.yields
        if lst is None:
            self.unknown("yield from outside an inlined generator function", node)
            return ("unk", "yield")
        self._extend(lst, self.eval(node.value), node)
        return NONE

    def e_Lambda(self, node):
        return Closure(node, self.frame.module, dict(self.frame.env), self_obj=self.frame.self_obj,
                       cls=self.frame.cls, qual=f"{self.frame.qual}.<lambda>", outer=tuple(self.frame.closure_envs))

    def e_IfExp(self, node):
        c = self.eval(node.test)
        t = self.truth(c)
        if t is True:
            return self.eval(node.body)
        if t is False:
            return self.eval(node.orelse)
        g = self.to_term(c)
        self.guards.append(g)
        a = self.to_term(self.eval(node.body))
        self.guards[-1] = app("not", g)
        b = self.to_term(self.eval(node.orelse))
        self.guards.pop()
        return mkphi(g, a, b)

    def e_BoolOp(self, node):
        is_and = isinstance(node.op, ast.And)
        acc = None
        for vnode in node.values:
            v = self.eval(vnode)
            t = self.truth(v)
            if acc is None:
                if (is_and and t is False) or (not is_and and t is True):
                    return v
                if t is None:
                    acc = self.to_term(v)
                else:
                    last = v
                continue
            if (is_and and t is False) or (not is_and and t is True):
                # python would return v here when the residual part is truthy/falsy: keep a residual
                return app("and" if is_and else "or", acc, self.to_term(v))
            if t is None:
                acc = app("and" if is_and else "or", acc, self.to_term(v))
        if acc is None:
            return last
        return acc

    def e_UnaryOp(self, node):
        v = self.eval(node.operand)
        if isinstance(node.op, ast.Not):
            t = self.truth(v)
            if t is not None:
                return K(not t)
            return app("not", self.guard_term(v))
        v = self.to_term(v)
        if isinstance(node.op, ast.USub):
            if is_const(v) and isinstance(v[1], (int, float)):
                return K(-v[1])
            return app("neg", v)
        if isinstance(node.op, ast.UAdd):
            return v
        return app("~", v)

    def e_BinOp(self, node):
        a = self.eval(node.left)
        b = self.eval(node.right)
        return self.binop(BINOPS.get(type(node.op), "?"), a, b, node)

    def binop(self, op, a, b, node=None):
        if op == "+" and isinstance(a, PyList) and isinstance(b, PyList):
            out = PyList(base_loops=self.loops, base_guards=self.eff_guards())
            self._extend(out, a)
            self._extend(out, b)
            return out
        if op == "+" and (isinstance(a, PyList) or isinstance(b, PyList)):
            ta, tb = self.to_term(a), self.to_term(b)
            if ta[0] == "list" and tb[0] == "list":
                return ("list", ta[1] + tb[1])
            out = PyList(base_loops=self.loops, base_guards=self.eff_guards())
            self._extend(out, a)
            self._extend(out, b)
            return out
        a, b = self.to_term(a), self.to_term(b)
        if is_const(a) and is_const(b) and op in PYFOLD:
            try:
                return K(PYFOLD[op](a[1], b[1]))
            except Exception:
                pass
        if op == "+" and a[0] == "list" and b[0] == "list":
            return ("list", a[1] + b[1])
        if op == "+":
            # string concatenation: one spelling with f-strings ('a' + str(x) + 'b' is f"a{x}b")
            def strish(t):
                return (is_const(t) and isinstance(t[1], str)) or (isinstance(t, tuple) and t and t[0] == "fstr")
            if strish(a) or strish(b):
                parts = []
                for t in (a, b):
                    for q in (t[1] if (isinstance(t, tuple) and t and t[0] == "fstr") else (t,)):
                        if parts and is_const(q) and isinstance(q[1], str) and is_const(parts[-1]) and isinstance(parts[-1][1], str):
                            parts[-1] = K(parts[-1][1] + q[1])
                        else:
                            parts.append(q)
                return ("fstr", tuple(parts))
        return app(op, a, b)

    def e_Compare(self, node):
        left = self.to_term(self.eval(node.left))
        if len(node.ops) > 1:
            ops = [CMPOPS[type(o)] for o in node.ops]
            operands = [left] + [self.to_term(self.eval(c)) for c in node.comparators]
            self.event("chained-compare", {"ops": ops, "operands": operands, "src": ast.unparse(node)}, node)
            acc = None
            for i, o in enumerate(ops):
                c = self.compare(o, operands[i], operands[i + 1])
                acc = c if acc is None else app("and", acc, c)
            return acc
        right = self.eval(node.comparators[0])
        op = CMPOPS[type(node.ops[0])]
        if op in ("in", "notin"):
            return self.contains(op, left, right)
        return self.compare(op, left, self.to_term(right))

    def compare(self, op, a, b):
        if is_const(a) and is_const(b):
            if op in PYFOLD:
                try:
                    return K(PYFOLD[op](a[1], b[1]))
                except Exception:
                    pass
            if op == "is":
                return K(a[1] is b[1])
            if op == "isnot":
                return K(a[1] is not b[1])
        if op in ("is", "isnot") and (is_const(a) or is_const(b)):
            other = b if is_const(a) else a
            # an object / container built here is never None
            if other[0] in ("obj", "list", "tuple", "z3var", "app", "fresh", "fstr", "dict"):
                return K(op == "isnot")
        return app(op, a, b)

    def contains(self, op, a, b):
        if isinstance(b, (PyList, PyDict)) and self.grown_in_running_loop(b) is not None:
            g = self.grown_in_running_loop(b)
            sofar = self._safe_term(b)
            # a membership test against the container being filled: "seen before" (a first-occurrence filter)
            self.event("prefix-read", {"loop": g[1], "list": sofar, "how": "membership", "tested": a, "container": b}, None)
            return app(op, a, ("carried", g[0], g[1], sofar))
        if isinstance(b, PyList) and b.plain() and is_const(a) and all(is_const(self.to_term(i.value)) for i in b.items):
            r = a[1] in [self.to_term(i.value)[1] for i in b.items]
            return K(r if op == "in" else not r)
        if isinstance(b, PyDict) and not b.entries:
            return K(op != "in")
        if isinstance(b, PyList) and not b.items:
            return K(op != "in")
        return app(op, a, self.ref_term(b))

    def e_Attribute(self, node):
        base = self.eval(node.value)
        return self.getattr(base, node.attr, node)

    def getattr(self, base, name, node=None):
        if isinstance(base, ModuleRef):
            return self.module_attr(base, name)
        if isinstance(base, ExtRef):
            return ExtRef(base.dotted + "." + name)
        if isinstance(base, ClassRef):
            oc, fn = base.cls.find_method(name)
            if fn is not None:
                return Closure(fn, oc.module, {}, cls=oc, qual=f"{oc.name}.{name}")
            if name == "__name__":
                return K(base.cls.name)
            return ("attr", ("class", base.cls.name), name)
        if isinstance(base, SuperRef):
            oc, fn = base.static_cls.find_method(name, after=base.after)
            if fn is None:
                return ExtRef(f"pydantic.BaseModel.{name}")
            return BoundMethod(base.self_obj, oc, fn, base.static_cls)
        if isinstance(base, (PyList, PyDict)):
            return BuiltinMethod(base, name)
        if isinstance(base, (Closure, BoundMethod, BuiltinMethod)):
            return ("attr", self.to_term(base), name)
        if not isinstance(base, tuple):
            return ("unk", "attribute of odd value")
        if is_const(base) and isinstance(base[1], str):
            return BuiltinMethod(base, name)
        key = (base, name)
        if key in self.heap:
            return self.heap[key]
        # value known from the configuration (singleton domain)?
        t = ("attr", base, name)
        # methods
        if base == ("sym", "self") and self.top_cls is not None:
            cls_list = [self.top_cls]
        else:
            cls_list = self.classes_of(base)
        if cls_list:
            found = []
            for ci in cls_list:
                oc, fn = ci.find_method(name)
                if fn is not None:
                    found.append((oc, fn, ci))
            if found:
                fns = {id(f[1]) for f in found}
                if len(fns) == 1 and len(found) == len(cls_list):
                    return BoundMethod(base, found[0][0], found[0][1], found[0][2])
                return ("attr", base, name)
            if name == "__class__":
                if len(cls_list) == 1 and base[0] in ("obj",):
                    return ClassRef(cls_list[0])
                return ("attr", base, name)
            # default value of a pydantic field of an object built here
            if base[0] == "obj":
                f = cls_list[0].all_fields().get(name)
                if f is not None and f.default is not P.MISSING and not isinstance(f.default, tuple):
                    if isinstance(f.default, (list, dict)):
                        # pydantic copies mutable defaults per instance: one container per object
                        cont = PyList(origin=("attr", base, name)) if isinstance(f.default, list) else PyDict(origin=("attr", base, name))
                        cont.base_loops, cont.base_guards = (), ()
                        self.heap[(base, name)] = cont
                        return cont
                    return K(f.default)
        for ci in cls_list:
            if name in ci.all_fields():
                return t
        if cls_list and not name.startswith("__") and node is not None:
            missing = [ci.name for ci in cls_list if not self.has_attr(ci, name)]
            if missing:
                self.event("attr-unresolved", {"base": base, "attr": name, "classes": tuple(missing),
                                               "all_classes": tuple(ci.name for ci in cls_list)}, node)
        if name in ("split", "join", "format", "strip", "encode", "as_long", "startswith", "endswith",
                    "values", "keys", "items", "get", "copy", "strftime", "count", "size", "get_name", "get_kind",
                    "get_documentation"):
            return BuiltinMethod(base, name)
        return t

    def module_attr(self, mref: ModuleRef, name):
        mod = mref.name
        if mod == "z3":
            return ExtRef("z3." + name)
        full = f"{mod}.{name}"
        if full in self.project.modules:
            return ModuleRef(full)
        if mod in self.project.modules:
            m = self.project.modules[mod]
            r = self.project.resolve_name(m, name)
            if r is not None:
                if r[0] == "class":
                    return ClassRef(r[1])
                if r[0] == "func":
                    return Closure(r[2], r[1], {}, qual=f"{r[1].short}.{r[2].name}")
                if r[0] == "module":
                    return ModuleRef(r[1])
            if name in m.globals_assigned:
                return ("glob", full)
            return ("glob", full)
        return ExtRef(full)

    def e_Subscript(self, node):
        base = self.eval(node.value)
        if isinstance(node.slice, ast.Slice):
            lo = self.to_term(self.eval(node.slice.lower)) if node.slice.lower else NONE
            hi = self.to_term(self.eval(node.slice.upper)) if node.slice.upper else NONE
            st = self.to_term(self.eval(node.slice.step)) if node.slice.step else NONE
            if isinstance(base, PyList) and base.plain() and all(is_const(x) for x in (lo, hi, st)):
                out = PyList(base_loops=self.loops, base_guards=self.eff_guards())
                out.items = [Item(i.value) for i in base.items[slice(lo[1], hi[1], st[1])]]
                return out
            return ("idx", self.ref_term(base), ("slice", lo, hi, st))
        iv = self.eval(node.slice)
        idx = self.to_term(iv)
        if is_app(idx) and idx[1] in ("==", "!=", "<", "<=", ">", ">=", "not", "is", "is not", "in") and not isinstance(base, PyDict):
            # x[cond]: a comparison used as a position is 1 when it holds and 0 when it does not
            t = self.truth(iv)
            if t is True:
                idx = K(1)
            elif t is False:
                idx = K(0)
        return self.subscript(base, idx)

    def subscript(self, base, idx):
        if isinstance(base, PyList):
            if base.plain() and is_const(idx) and isinstance(idx[1], int):
                try:
                    return base.items[idx[1]].value
                except IndexError:
                    return ("unk", "index out of range")
            if is_const(idx) and isinstance(idx[1], int) and idx[1] >= 0 and len(base.items) > idx[1] \
                    and all(not i.loops and not i.guards for i in base.items[: idx[1] + 1]):
                return base.items[idx[1]].value
            return ("idx", self.ref_term(base), idx)
        if isinstance(base, PyDict):
            for (k, v, loops, guards) in base.entries:
                if k == idx and not loops and not guards:
                    return v
            if base.entries and all(is_const(k) and not l and not g for (k, v, l, g) in base.entries) \
                    and not is_const(idx) and self.is_static(idx) and self.dom(idx).vals is not None:
                # dispatch table indexed by a Literal field: one configuration per key
                for (k, v, l, g) in base.entries:
                    if self.config.test_eq(idx, self.dom(idx), k[1]):
                        return v
                self.event("keyerror", {"table": self.to_term(base), "key": idx,
                                        "remaining": tuple(sorted(map(repr, self.dom(idx).vals)))}, None)
                return ("unk", "KeyError")
            return ("idx", self.ref_term(base), idx)
        base = self.to_term(base)
        if base[0] == "elem" and is_const(idx) and idx[1] == 0 and isinstance(base[1], tuple) and len(base[1]) > 3 \
                and isinstance(base[1][3], tuple) and base[1][3][:2] == ("call", "enumerate"):
            return ("pos", base[1])         # first component of an element of enumerate(...): the position
        if base[0] in ("tuple", "list") and is_const(idx) and isinstance(idx[1], int):
            items = base[1]
            if -len(items) <= idx[1] < len(items) and all(not (isinstance(i, tuple) and i and i[0] == "each") for i in items):
                return items[idx[1]]
        if base[0] == "z3var" and base[1] == "Array":
            return app("Select", base, idx)
        if base[0] == "dict":
            for ent in base[1]:
                if ent[0] == "tuple" and ent[1][0] == idx:
                    return ent[1][1]
        return ("idx", base, idx)

    def e_ListComp(self, node):
        return self._comprehension(node, node.elt)

    e_GeneratorExp = e_ListComp
    e_SetComp = e_ListComp

    def e_DictComp(self, node):
        return self._comprehension(node, None, dict_kv=(node.key, node.value))

    def _comprehension(self, node, elt, dict_kv=None):
        """generators are processed left to right; a generator over a list whose items are known from the source is unrolled
        (one pass per written item, an item produced inside a loop keeps that loop), any other one is a symbolic loop"""
        base_loops, base_guards = self.loops, self.eff_guards()
        n_base_guards = len(self.guards)
        saved_env = self.frame.env
        self.frame.env = dict(saved_env)
        out = PyDict(base_loops=base_loops, base_guards=base_guards) if dict_kv is not None else \
            PyList(base_loops=base_loops, base_guards=base_guards)

        def produce():
            rel_loops = self.loops[len(base_loops):]
            rel_guards = tuple(self.guards[n_base_guards:])
            if dict_kv is not None:
                out.entries.append((self.to_term(self.eval(dict_kv[0])), self.eval(dict_kv[1]), rel_loops, rel_guards))
            else:
                out.items.append(Item(self.eval(elt), rel_loops, rel_guards))

        def conditions(gen, static_ok):
            """push the residual conditions of the generator; False when a condition is statically false"""
            for cond in gen.ifs:
                c = self.eval(cond)
                t = self.truth(c) if static_ok and not any(self._mentions_loop(c, l_) for l_ in self.loops[len(base_loops):]) else None
                if t is True:
                    continue
                if t is False:
                    return False
                self.guards.append(self.to_term(c))
            return True

        def rec(gi):
            if gi == len(node.generators):
                produce()
                return
            gen = node.generators[gi]
            it = self.eval(gen.iter)
            items = self._known_items(it)
            if items is not None:
                for val, loops, guards in items:
                    nl, ng = len(self.loops), len(self.guards)
                    env_before = dict(self.frame.env)
                    self.loops = self.loops + tuple(loops)
                    self.guards.extend(guards)
                    try:
                        self.assign(gen.target, val, gen)
                        if conditions(gen, static_ok=not loops):
                            rec(gi + 1)
                    finally:
                        self.loops = self.loops[:nl]
                        del self.guards[ng:]
                        self.frame.env = env_before
                return
            readers = list(gen.ifs) + [g2 for g2 in node.generators[gi + 1:]] + \
                ([elt] if elt is not None else []) + (list(dict_kv) if dict_kv is not None else [])
            it, target, keyed = self.normalize_iteration(it, gen.target, readers)
            z = self.zip_as_range(self.ref_term(it) if not isinstance(it, tuple) else it)
            if z is not None:
                it = z[0]
            loop = self.new_loop("comp", it, gen)
            if z is not None:
                if not hasattr(self, "_zip_loops"):
                    self._zip_loops = {}
                self._zip_loops[loop[1]] = z[1]
            nl, ng = len(self.loops), len(self.guards)
            self.loops = self.loops + (loop,)
            try:
                if keyed is not None:
                    self.assign(keyed[1].elts[0], ("elem", loop), gen)
                    self.assign(keyed[1].elts[1], ("idx", keyed[0], ("elem", loop)), gen)
                else:
                    self.bind_loop_target(target, loop, it)
                if conditions(gen, static_ok=True):
                    rec(gi + 1)
            finally:
                self.loops = self.loops[:nl]
                del self.guards[ng:]

        try:
            rec(0)
            if dict_kv is None and len(out.items) == 1 and len(out.items[0].loops) == 1 and not out.items[0].guards:
                # [D[k] for k in D] (or over D.keys()) is list(D.values()): one spelling
                L = out.items[0].loops[0]
                D = L[3]
                if isinstance(D, tuple) and len(D) == 5 and D[0] == "mcall" and D[2] == "keys" and not D[3] and not D[4]:
                    D = D[1]
                v = out.items[0].value
                if isinstance(D, tuple) and D and D[0] == "attr" and v == ("idx", D, ("elem", L)):
                    return ("call", "list", (("mcall", D, "values", (), ()),), ())
            return out
        finally:
            del self.guards[n_base_guards:]
            self.loops = base_loops
            self.frame.env = saved_env

    def _mentions_loop(self, v, loop):
        from .terms import subterms
        t = self.to_term(v)
        return any(s == loop for s in subterms(t))

    def e_Starred(self, node):
        return ("starred", self.to_term(self.eval(node.value)))

    def e_NamedExpr(self, node):
        v = self.eval(node.value)
        self.frame.env[node.target.id] = v
        return v

    def e_Call(self, node):
        return self.call_node(node)
