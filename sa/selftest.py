"""E8 - self-validation of the rules on seeded variants of /repo.

Each variant is a copy of /repo/processscheduler in a private temp directory (removed
afterwards) with one edit applied:
  * kind 'break': a change that breaks a property; the rules serving the property must report
    an unlisted violation (and, when `expect` is given, by one of those rules);
  * kind 'twin' : a behaviour preserving refactoring; the rules must stay silent and must not
    fall into ANALYSIS-ERROR.
A failure here is a defect of the checker (CHECKER-SELF-TEST-FAILED, exit 2), never a
VIOLATION about /repo.  Variants whose anchor text is no longer present are skipped.
"""
from __future__ import annotations

import ast
import importlib
import io
import os
import shutil
import sys
import tempfile
import contextlib
from concurrent.futures import ProcessPoolExecutor
from typing import Dict, List, Optional

HERE = os.path.dirname(os.path.abspath(__file__))
sys.path.insert(0, os.path.dirname(HERE))

from sa import project as P  # noqa: E402


class _FlipCompare(ast.NodeTransformer):
    """a <= b  ->  b >= a   (single-operator comparisons of the ordering kind)"""
    FLIP = {ast.Lt: ast.Gt, ast.LtE: ast.GtE, ast.Gt: ast.Lt, ast.GtE: ast.LtE}

    def visit_Compare(self, node):
        self.generic_visit(node)
        if len(node.ops) == 1 and type(node.ops[0]) in self.FLIP:
            return ast.copy_location(ast.Compare(left=node.comparators[0], ops=[self.FLIP[type(node.ops[0])]()],
                                                 comparators=[node.left]), node)
        return node


class _RenameLocals(ast.NodeTransformer):
    """rename the plain local variables of every function (not parameters, not names also used by a nested scope)"""

    def visit_FunctionDef(self, node):
        self.generic_visit(node)
        params = {a.arg for a in node.args.posonlyargs + node.args.args + node.args.kwonlyargs}
        if node.args.vararg:
            params.add(node.args.vararg.arg)
        if node.args.kwarg:
            params.add(node.args.kwarg.arg)
        nested = set()
        for sub in ast.walk(node):
            if sub is not node and isinstance(sub, (ast.FunctionDef, ast.Lambda, ast.ListComp, ast.SetComp, ast.DictComp, ast.GeneratorExp, ast.ClassDef)):
                for n in ast.walk(sub):
                    if isinstance(n, ast.Name):
                        nested.add(n.id)
                    if isinstance(n, ast.arg):
                        nested.add(n.arg)
        stored = set()
        glob = set()
        for n in ast.walk(node):
            if isinstance(n, ast.Name) and isinstance(n.ctx, ast.Store):
                stored.add(n.id)
            if isinstance(n, (ast.Global, ast.Nonlocal)):
                glob |= set(n.names)
        rename = {x for x in stored if x not in params and x not in nested and x not in glob and not x.startswith("__")}
        if not rename:
            return node
        for n in ast.walk(node):
            if isinstance(n, ast.Name) and n.id in rename:
                n.id = n.id + "_rn"
        return node


class _SwapBranches(ast.NodeTransformer):
    """if c: A else: B  ->  if not c: B else: A   (only statements with an else part)"""

    def visit_If(self, node):
        self.generic_visit(node)
        if node.orelse:
            return ast.copy_location(ast.If(test=ast.UnaryOp(op=ast.Not(), operand=node.test), body=node.orelse, orelse=node.body), node)
        return node


class _NoneTests(ast.NodeTransformer):
    """x is not None  ->  not (x is None)"""

    def visit_Compare(self, node):
        self.generic_visit(node)
        if len(node.ops) == 1 and isinstance(node.ops[0], ast.IsNot) and isinstance(node.comparators[0], ast.Constant) \
                and node.comparators[0].value is None:
            return ast.copy_location(ast.UnaryOp(op=ast.Not(), operand=ast.Compare(left=node.left, ops=[ast.Is()],
                                                                                   comparators=node.comparators)), node)
        return node


class _AugAssign(ast.NodeTransformer):
    """x += y  ->  x = x + y  for plain names that are never used as a list (no append / extend / list display on them)"""

    def visit_FunctionDef(self, node):
        listy = set()
        for n in ast.walk(node):
            if isinstance(n, ast.Call) and isinstance(n.func, ast.Attribute) and n.func.attr in ("append", "extend", "pop", "insert") \
                    and isinstance(n.func.value, ast.Name):
                listy.add(n.func.value.id)
            if isinstance(n, ast.Assign) and isinstance(n.value, (ast.List, ast.ListComp, ast.Dict, ast.DictComp)):
                for t in n.targets:
                    if isinstance(t, ast.Name):
                        listy.add(t.id)
        self._listy = listy
        self.generic_visit(node)
        return node

    def visit_AugAssign(self, node):
        if isinstance(node.target, ast.Name) and node.target.id not in getattr(self, "_listy", set()) \
                and not isinstance(node.value, (ast.List, ast.ListComp)):
            return ast.copy_location(ast.Assign(targets=[ast.Name(id=node.target.id, ctx=ast.Store())],
                                                value=ast.BinOp(left=ast.Name(id=node.target.id, ctx=ast.Load()), op=node.op,
                                                                right=node.value)), node)
        return node


class _FStringConcat(ast.NodeTransformer):
    """f"{a}_{b}"  ->  str(a) + "_" + str(b)   (no conversions / format specs)"""

    def visit_JoinedStr(self, node):
        self.generic_visit(node)
        parts = []
        for v in node.values:
            if isinstance(v, ast.Constant):
                parts.append(v)
            elif isinstance(v, ast.FormattedValue) and v.conversion == -1 and v.format_spec is None:
                parts.append(ast.Call(func=ast.Name(id="str", ctx=ast.Load()), args=[v.value], keywords=[]))
            else:
                return node
        if not parts:
            return node
        out = parts[0]
        for q in parts[1:]:
            out = ast.BinOp(left=out, op=ast.Add(), right=q)
        if isinstance(out, ast.Constant):
            return node
        return ast.copy_location(out, node)


class _TempForSink(ast.NodeTransformer):
    """self.append_z3_assertion(E) / self.set_z3_assertions(E)  ->  tmp = E; call(tmp)   (single positional argument)"""
    SINKS = ("append_z3_assertion", "set_z3_assertions", "append_z3_list_of_assertions")

    def __init__(self):
        self.k = 0

    def visit_Expr(self, node):
        c = node.value
        if isinstance(c, ast.Call) and isinstance(c.func, ast.Attribute) and c.func.attr in self.SINKS and len(c.args) == 1 \
                and not c.keywords and not isinstance(c.args[0], (ast.Name, ast.Starred)):
            self.k += 1
            name = f"sink_arg_{self.k}"
            a = ast.Assign(targets=[ast.Name(id=name, ctx=ast.Store())], value=c.args[0])
            call = ast.Expr(value=ast.Call(func=c.func, args=[ast.Name(id=name, ctx=ast.Load())], keywords=[]))
            return [ast.copy_location(a, node), ast.copy_location(call, node)]
        return node


class _EarlyContinue(ast.NodeTransformer):
    """for ...: if c: BODY   ->   for ...: if not c: continue; BODY   (the if is the whole loop body, no else)"""

    def visit_For(self, node):
        self.generic_visit(node)
        if len(node.body) == 1 and isinstance(node.body[0], ast.If) and not node.body[0].orelse and not node.orelse:
            i = node.body[0]
            guard = ast.If(test=ast.UnaryOp(op=ast.Not(), operand=i.test), body=[ast.Continue()], orelse=[])
            node.body = [ast.copy_location(guard, i)] + i.body
        return node


class _AppendLoopToExtend(ast.NodeTransformer):
    """for x in xs: lst.append(e)  ->  lst.extend([e for x in xs])   (loop body is that single statement)"""

    def visit_For(self, node):
        self.generic_visit(node)
        if len(node.body) == 1 and not node.orelse and isinstance(node.body[0], ast.Expr):
            c = node.body[0].value
            if isinstance(c, ast.Call) and isinstance(c.func, ast.Attribute) and c.func.attr == "append" and isinstance(c.func.value, ast.Name) \
                    and len(c.args) == 1 and not c.keywords:
                comp = ast.ListComp(elt=c.args[0], generators=[ast.comprehension(target=node.target, iter=node.iter, ifs=[], is_async=0)])
                call = ast.Call(func=ast.Attribute(value=c.func.value, attr="extend", ctx=ast.Load()), args=[comp], keywords=[])
                return ast.copy_location(ast.Expr(value=call), node)
        return node


class _ElseAfterJump(ast.NodeTransformer):
    """if c: ...; return/raise/continue/break  else: REST   ->   if c: ...jump;  REST"""

    def _fix(self, stmts):
        out = []
        for st in stmts:
            if isinstance(st, ast.If) and st.orelse and st.body and isinstance(st.body[-1], (ast.Return, ast.Raise, ast.Continue, ast.Break)):
                rest = st.orelse
                st.orelse = []
                out.append(st)
                out.extend(rest)
            else:
                out.append(st)
        return out

    def generic_visit(self, node):
        super().generic_visit(node)
        for fld in ("body", "orelse", "finalbody"):
            v = getattr(node, fld, None)
            if isinstance(v, list) and v and isinstance(v[0], ast.stmt):
                setattr(node, fld, self._fix(v))
        return node


class _ReverseZ3Args(ast.NodeTransformer):
    """z3.And(a, b, c) -> z3.And(c, b, a); same for Or, Xor (two arguments), Sum with positional arguments"""

    def visit_Call(self, node):
        self.generic_visit(node)
        f = node.func
        if isinstance(f, ast.Attribute) and isinstance(f.value, ast.Name) and f.value.id == "z3" and f.attr in ("And", "Or", "Xor", "Sum") \
                and len(node.args) >= 2 and not node.keywords and not any(isinstance(a, ast.Starred) for a in node.args):
            node.args = list(reversed(node.args))
        return node


class _SwapEq(ast.NodeTransformer):
    """a == b -> b == a, a != b -> b != a (single operator)"""

    def visit_Compare(self, node):
        self.generic_visit(node)
        if len(node.ops) == 1 and isinstance(node.ops[0], (ast.Eq, ast.NotEq)):
            return ast.copy_location(ast.Compare(left=node.comparators[0], ops=node.ops, comparators=[node.left]), node)
        return node


class _SubAsAddNeg(ast.NodeTransformer):
    """a - b -> a + (-b)"""

    def visit_BinOp(self, node):
        self.generic_visit(node)
        if isinstance(node.op, ast.Sub):
            return ast.copy_location(ast.BinOp(left=node.left, op=ast.Add(), right=ast.UnaryOp(op=ast.USub(), operand=node.right)), node)
        return node


class _IsinstanceSplit(ast.NodeTransformer):
    """isinstance(x, (A, B)) -> isinstance(x, A) or isinstance(x, B)"""

    def visit_Call(self, node):
        self.generic_visit(node)
        if isinstance(node.func, ast.Name) and node.func.id == "isinstance" and len(node.args) == 2 and isinstance(node.args[1], ast.Tuple) \
                and len(node.args[1].elts) >= 2:
            return ast.copy_location(ast.BoolOp(op=ast.Or(), values=[
                ast.Call(func=ast.Name(id="isinstance", ctx=ast.Load()), args=[node.args[0], e], keywords=[]) for e in node.args[1].elts]), node)
        return node


class _FlipTernary(ast.NodeTransformer):
    """a if c else b  ->  b if not c else a"""

    def visit_IfExp(self, node):
        self.generic_visit(node)
        return ast.copy_location(ast.IfExp(test=ast.UnaryOp(op=ast.Not(), operand=node.test), body=node.orelse, orelse=node.body), node)


class _UnpackInBody(ast.NodeTransformer):
    """for a, b in xs: BODY  ->  for item in xs: a, b = item; BODY"""

    def __init__(self):
        self.k = 0

    def visit_For(self, node):
        self.generic_visit(node)
        if isinstance(node.target, ast.Tuple):
            self.k += 1
            name = f"loop_item_{self.k}"
            tgt = node.target
            node.target = ast.Name(id=name, ctx=ast.Store())
            node.body = [ast.Assign(targets=[tgt], value=ast.Name(id=name, ctx=ast.Load()))] + node.body
        return node


class _ListCompToLoop(ast.NodeTransformer):
    """x = [e for a in b if c]  ->  x = []; for a in b: if c: x.append(e)   (plain name target, one generator)"""

    def _fix(self, stmts):
        out = []
        for st in stmts:
            if isinstance(st, ast.Assign) and len(st.targets) == 1 and isinstance(st.targets[0], ast.Name) and isinstance(st.value, ast.ListComp) \
                    and len(st.value.generators) == 1 and not st.value.generators[0].is_async:
                gen = st.value.generators[0]
                name = st.targets[0].id
                used = {n.id for n in ast.walk(st.value) if isinstance(n, ast.Name)}
                if name in used:
                    out.append(st)
                    continue
                body = [ast.Expr(value=ast.Call(func=ast.Attribute(value=ast.Name(id=name, ctx=ast.Load()), attr="append", ctx=ast.Load()),
                                                args=[st.value.elt], keywords=[]))]
                for c in reversed(gen.ifs):
                    body = [ast.If(test=c, body=body, orelse=[])]
                out.append(ast.copy_location(ast.Assign(targets=[ast.Name(id=name, ctx=ast.Store())], value=ast.List(elts=[], ctx=ast.Load())), st))
                out.append(ast.copy_location(ast.For(target=gen.target, iter=gen.iter, body=body, orelse=[]), st))
            else:
                out.append(st)
        return out

    def generic_visit(self, node):
        super().generic_visit(node)
        for fld in ("body", "orelse", "finalbody"):
            v = getattr(node, fld, None)
            if isinstance(v, list) and v and isinstance(v[0], ast.stmt):
                setattr(node, fld, self._fix(v))
        return node


class _ValuesAsItems(ast.NodeTransformer):
    """for v in d.values(): BODY  ->  for _key, v in d.items(): BODY"""

    def __init__(self):
        self.k = 0

    def visit_For(self, node):
        self.generic_visit(node)
        it = node.iter
        if isinstance(it, ast.Call) and isinstance(it.func, ast.Attribute) and it.func.attr == "values" and not it.args:
            self.k += 1
            node.iter = ast.Call(func=ast.Attribute(value=it.func.value, attr="items", ctx=ast.Load()), args=[], keywords=[])
            node.target = ast.Tuple(elts=[ast.Name(id=f"unused_key_{self.k}", ctx=ast.Store()), node.target], ctx=ast.Store())
        return node


GLOBAL_TRANSFORMS = {
    "unparse": lambda tree: tree,
    "flip-comparisons": lambda tree: _FlipCompare().visit(tree),
    "rename-locals": lambda tree: _RenameLocals().visit(tree),
    "swap-branches": lambda tree: _SwapBranches().visit(tree),
    "none-tests": lambda tree: _NoneTests().visit(tree),
    "augassign": lambda tree: _AugAssign().visit(tree),
    "fstring-concat": lambda tree: _FStringConcat().visit(tree),
    "temp-for-sink": lambda tree: _TempForSink().visit(tree),
    "early-continue": lambda tree: _EarlyContinue().visit(tree),
    "append-loop-to-extend": lambda tree: _AppendLoopToExtend().visit(tree),
    "else-after-jump": lambda tree: _ElseAfterJump().visit(tree),
    "reverse-z3-args": lambda tree: _ReverseZ3Args().visit(tree),
    "swap-eq": lambda tree: _SwapEq().visit(tree),
    "sub-as-add-neg": lambda tree: _SubAsAddNeg().visit(tree),
    "isinstance-split": lambda tree: _IsinstanceSplit().visit(tree),
    "flip-ternary": lambda tree: _FlipTernary().visit(tree),
    "unpack-in-body": lambda tree: _UnpackInBody().visit(tree),
    "listcomp-to-loop": lambda tree: _ListCompToLoop().visit(tree),
    "values-as-items": lambda tree: _ValuesAsItems().visit(tree),
}


def apply_global(root: str, name: str) -> Optional[str]:
    pkg = os.path.join(root, "processscheduler")
    for fn in sorted(os.listdir(pkg)):
        if not fn.endswith(".py"):
            continue
        path = os.path.join(pkg, fn)
        src = open(path, encoding="utf-8").read()
        tree = GLOBAL_TRANSFORMS[name](ast.parse(src))
        ast.fix_missing_locations(tree)
        out = ast.unparse(tree)
        try:
            ast.parse(out)
        except SyntaxError as ex:
            return f"transformed module does not parse: {ex}"
        open(path, "w", encoding="utf-8").write(out + "\n")
    return None


def apply_edit(root: str, m: dict) -> Optional[str]:
    """returns None when applied, else the reason it could not be"""
    if m.get("global"):
        return apply_global(root, m["global"])
    edits = m.get("edits") or [m]
    for e in edits:
        path = os.path.join(root, "processscheduler", e["file"])
        if not os.path.exists(path):
            return f"file {e['file']} missing"
        src = open(path, encoding="utf-8").read()
        old, new = e["old"], e["new"]
        n = src.count(old)
        if n == 0:
            return f"anchor text not found in {e['file']}"
        occ = e.get("occurrence", 1)
        if occ == "all":
            src = src.replace(old, new)
        else:
            if n < occ:
                return f"occurrence {occ} not found in {e['file']}"
            pos = -1
            for _ in range(occ):
                pos = src.find(old, pos + 1)
            src = src[:pos] + new + src[pos + len(old):]
        try:
            ast.parse(src)
        except SyntaxError as ex:
            return f"variant does not parse: {ex}"
        open(path, "w", encoding="utf-8").write(src)
    return None


def run_variant(args) -> dict:
    m, repo = args
    from sa.report import Ctx, load_known
    from rules import registry
    tmp = tempfile.mkdtemp(prefix="psverif_variant_")
    res = {"id": m["id"], "kind": m["kind"], "props": m["props"], "status": "", "detail": ""}
    try:
        shutil.copytree(os.path.join(repo, "processscheduler"), os.path.join(tmp, "processscheduler"),
                        ignore=shutil.ignore_patterns("__pycache__"))
        why = apply_edit(tmp, m)
        if why is not None:
            res["status"], res["detail"] = "skipped", why
            return res
        fired_rules, errors = [], []
        for prop in m["props"]:
            if prop not in registry.PROPERTIES:
                continue
            try:
                proj = P.Project(tmp)
                ctx = Ctx(prop, "quick", proj)
                with contextlib.redirect_stdout(io.StringIO()):
                    for rule in registry.PROPERTIES[prop]["rules"]:
                        rule(ctx)
                known = [(k["rule"], k["where"], k["construct"]) for k in load_known()
                         if (k.get("property") == prop or prop in k.get("also", [])) and k.get("status", "known") == "known"]
                for f in ctx.findings:
                    if f.key() not in known:
                        fired_rules.append((prop, f.rule, f.where, f.message[:160]))
            except P.AnalysisError as e:
                errors.append(f"{prop}: ANALYSIS-ERROR {e}")
            except Exception as e:
                errors.append(f"{prop}: internal {type(e).__name__}: {e}")
        res["fired"] = fired_rules
        res["errors"] = errors
        if m["kind"] == "break":
            exp = set(m.get("expect") or [])
            hit = [f for f in fired_rules if not exp or f[1] in exp]
            if hit:
                res["status"] = "caught"
                res["detail"] = f"{hit[0][1]} {hit[0][2]}: {hit[0][3]}"
            elif fired_rules:
                res["status"] = "caught-by-other-rule"
                res["detail"] = f"{fired_rules[0][1]} {fired_rules[0][2]}"
            elif errors:
                res["status"] = "analysis-error"
                res["detail"] = errors[0]
            else:
                res["status"] = "MISSED"
        else:
            if fired_rules:
                res["status"] = "FALSE-ALARM"
                res["detail"] = f"{fired_rules[0][1]} {fired_rules[0][2]}: {fired_rules[0][3]}"
            elif errors:
                res["status"] = "TWIN-ANALYSIS-ERROR"
                res["detail"] = errors[0]
            else:
                res["status"] = "silent"
        return res
    finally:
        shutil.rmtree(tmp, ignore_errors=True)


def run_all(props: Optional[List[str]] = None, jobs: int = 16, repo: Optional[str] = None, ids=None) -> List[dict]:
    from selftest.mutants import MUTANTS
    repo = repo or os.environ.get("VERIF_REPO", "/repo")
    todo = []
    for m in MUTANTS:
        if props and not (set(m["props"]) & set(props)):
            continue
        if ids and m["id"] not in ids:
            continue
        mm = dict(m)
        if props:
            mm["props"] = [p for p in m["props"] if p in props]
        todo.append((mm, repo))
    if not todo:
        return []
    with ProcessPoolExecutor(max_workers=min(jobs, len(todo))) as ex:
        return list(ex.map(run_variant, todo))


def summarize(results: List[dict]) -> Dict[str, int]:
    out: Dict[str, int] = {}
    for r in results:
        out[r["status"]] = out.get(r["status"], 0) + 1
    return out


def self_test_rule(props):
    """a rule usable in the thorough tier: runs the variants serving the property"""
    def rule(ctx):
        res = run_all([ctx.prop])
        summ = summarize(res)
        bad = [r for r in res if r["status"] in ("MISSED", "FALSE-ALARM", "TWIN-ANALYSIS-ERROR")]
        ctx.extra["self_test"] = {"variants": len(res), "summary": summ,
                                  "failures": [f"{r['id']}: {r['status']} {r['detail']}" for r in bad],
                                  "samples": [f"{r['id']}: {r['status']} - {r['detail']}" for r in res[:6]]}
        for r in res:
            if r["status"] in ("caught", "caught-by-other-rule", "silent"):
                ctx.ok("E8-SELF-TEST", r["id"], detail=r["detail"])
        if bad:
            raise P.AnalysisError("CHECKER-SELF-TEST-FAILED " + "; ".join(f"{r['id']}: {r['status']}" for r in bad))
    return rule


if __name__ == "__main__":
    import argparse
    ap = argparse.ArgumentParser()
    ap.add_argument("--props", nargs="*")
    ap.add_argument("--ids", nargs="*")
    ap.add_argument("--jobs", type=int, default=16)
    a = ap.parse_args()
    results = run_all(a.props, a.jobs, ids=a.ids)
    for r in results:
        print(f"{r['id']:<40} {r['kind']:<6} {r['status']:<22} {r['detail'][:150]}")
    print(summarize(results))
    bad = [r for r in results if r["status"] in ("MISSED", "FALSE-ALARM", "TWIN-ANALYSIS-ERROR", "analysis-error")]
    sys.exit(1 if bad else 0)
