"""Shared helpers for the rules: cached extraction, emission grouping, spec DSL, equivalence."""
from __future__ import annotations

from typing import Callable, Dict, Iterable, List, Optional, Sequence, Tuple

from . import project as P
from .decide import (norm, canon_arith, canon_atom, collect_atoms, comparison_points, order_type_check, truth_table_equiv,
                     Undecided, is_boolish, lin, Lin, CMP_OPS, eval_formula)
from .interp import explore, Entry
from .terms import K, TRUE, FALSE, NONE, app, is_app, is_const, show, subterms, rewrite, substitute, path, canon_loops
from .values import Run, Emission

_cache: Dict[tuple, List[Run]] = {}


def runs_of(ctx, entry: Entry) -> List[Run]:
    key = (ctx.project.repo, entry.kind, entry.cls, entry.name, entry.module, tuple(sorted(entry.opaque)),
           entry.max_depth, tuple(sorted((k, str(v)) for k, v in entry.param_types.items())),
           tuple(sorted((k, str(v)) for k, v in entry.preset.items())), entry.not_none, entry.nonstatic)
    if key not in _cache:
        _cache[key] = explore(ctx.project, entry)
    runs = _cache[key]
    ctx.analysed(entry.label(), len(runs), sum(len(r.emissions) for r in runs))
    return runs


def decided(run: Run) -> Dict[str, bool]:
    return dict(run.decisions)


def dom_of(run: Run, leaf: str):
    """configuration domain of a static leaf ('self.kind') on this path, or None if never tested"""
    return run.doms.get(path(leaf))


def leaf_value(run: Run, leaf: str):
    """('ok', v) if the configuration fixes the leaf to one python value"""
    d = dom_of(run, leaf)
    return d.singleton() if d is not None else None


def describe_config(run: Run) -> str:
    return run.config_key or "(no configuration atom)"


def fails_closed(ctx, rule: str, runs: Sequence[Run]):
    for r in runs:
        if r.unknowns:
            raise P.AnalysisError(f"{rule}: idiom not understood in {r.entry}: {r.unknowns[0]}")


# ---------------------------------------------------------------------------
# spec DSL
# ---------------------------------------------------------------------------
def S(s: str):
    return path(s)


def loop(pos: int, iterable):
    # iterating over list(X) / tuple(X) is iterating over X (the extractor spells it the same way)
    while isinstance(iterable, tuple) and len(iterable) == 4 and iterable[0] == "call" and iterable[1] in ("list", "tuple") \
            and len(iterable[2]) == 1 and not iterable[3]:
        iterable = iterable[2][0]
    return ("loop", pos, "", iterable)


def elem(l):
    return ("elem", l)


def A(base, name):
    return ("attr", base, name)


def idx(base, i):
    return ("idx", base, K(i) if not isinstance(i, tuple) else i)


def And(*a):
    return app("And", *a)


def Or(*a):
    return app("Or", *a)


def Not(a):
    return app("Not", a)


def Implies(a, b):
    return app("Implies", a, b)


def If(c, a, b):
    return app("If", c, a, b)


def Xor(a, b):
    return app("Xor", a, b)


def cmp(op, a, b):
    return app(op, a, b)


def ge(a, b):
    return app(">=", a, b)


def le(a, b):
    return app("<=", a, b)


def lt(a, b):
    return app("<", a, b)


def gt(a, b):
    return app(">", a, b)


def eq(a, b):
    return app("==", a, b)


def ne(a, b):
    return app("!=", a, b)


def add(a, b):
    return app("+", a, b)


def sub(a, b):
    return app("-", a, b)


def mul(a, b):
    return app("*", a, b)


# ---------------------------------------------------------------------------
# emission grouping
# ---------------------------------------------------------------------------
def _erase_ids(t):
    if not isinstance(t, tuple) or not t:
        return t
    if t[0] == "loop":
        return ("loop", "*", "", _erase_ids(t[3]))
    return tuple(_erase_ids(c) if isinstance(c, tuple) else c for c in t)


def _order_loops(loops):
    """independent loops are put in a canonical order (nesting order of independent loops is irrelevant)"""
    remaining = list(loops)
    placed = []
    while remaining:
        ready = [l for l in remaining if not any(o is not l and any(s == o for s in subterms(l[3])) for o in remaining)]
        if not ready:
            ready = remaining[:1]
        ready.sort(key=lambda l: show(_erase_ids(norm_iter(l[3]))))
        placed.append(ready[0])
        remaining.remove(ready[0])
    return tuple(placed)


def _rename_loops(loops, guards, term):
    """positional loop names: ('loop', id, kind, it) -> ('loop', pos, '', it')"""
    loops, guards, term = canon_inner_items((tuple(loops), tuple(guards), term))
    loops = _order_loops(loops)
    mapping = {}
    new_loops = []
    for pos, l in enumerate(loops):
        it = substitute(l[3], mapping) if mapping else l[3]
        it = norm_iter(it)
        shift = None
        if isinstance(it, tuple) and it and it[0] == "range" and len(it) == 3 and it[1] != K(0):
            # range(a, b) -> range(0, b - a), the loop variable becomes e + a
            shift = it[1]
            it = ("range", K(0), canon_arith(app("-", it[2], it[1])))
        pairs_of = None
        if isinstance(it, tuple) and len(it) == 5 and it[0] == "mcall" and it[2] == "items" and not it[3] and not it[4]:
            # for k, v in D.items(): the key loop over D with v = D[k] - when the pair is only ever taken apart
            e_ = ("elem", l)
            users = [x for src in (list(guards) + [term] + [o[3] for o in loops if o is not l]) for x in subterms(src)
                     if isinstance(x, tuple) and e_ in x[1:]]
            if all(x[0] == "idx" and x[1] == e_ and x[2] in (K(0), K(1)) for x in users):
                pairs_of = it[1]
                it = it[1]
        nl = ("loop", pos, "", norm(it))
        if shift is not None:
            mapping[("elem", l)] = app("+", ("elem", nl), shift)
        if pairs_of is not None:
            mapping[("idx", ("elem", l), K(0))] = ("elem", nl)
            mapping[("idx", ("elem", l), K(1))] = ("idx", norm(pairs_of), ("elem", nl))
        mapping[l] = nl
        new_loops.append(nl)

    def sub_all(t):
        if not mapping:
            return t
        # loops may be nested inside elem terms: substitute until stable
        for _ in range(len(mapping) + 1):
            t2 = substitute(t, mapping)
            if t2 == t:
                break
            t = t2
        return t
    return tuple(new_loops), tuple(sub_all(g) for g in guards), sub_all(term)


def canon_inner_items(t):
    """inside a term: a comprehension `for k, v in D.items()` whose pair is only ever taken apart is the key loop over D with
    v = D[k] (the same canonical form _rename_loops gives to statement loops)"""
    if not isinstance(t, tuple) or not t:
        return t
    if t[0] == "each" and len(t) == 4:
        loops, guards, body = t[1], t[2], t[3]
        for L in loops:
            it = L[3] if len(L) > 3 else None
            if isinstance(it, tuple) and len(it) == 5 and it[0] == "mcall" and it[2] == "items" and not it[3] and not it[4]:
                e_ = ("elem", L)
                srcs = list(guards) + [body] + [o[3] for o in loops if o is not L]
                users = [x for src in srcs for x in subterms(src) if isinstance(x, tuple) and e_ in x[1:]]
                if users and all(x[0] == "idx" and x[1] == e_ and x[2] in (K(0), K(1)) for x in users):
                    NL = L[:3] + (it[1],) + L[4:]
                    m = {("idx", e_, K(0)): ("elem", NL), ("idx", e_, K(1)): ("idx", it[1], ("elem", NL))}
                    t2 = ("each", tuple(NL if o is L else o[:3] + (substitute(o[3], m),) + o[4:] for o in loops),
                          tuple(substitute(g, m) for g in guards), substitute(body, m))
                    # loops nested deeper may mention the old loop inside their elem terms
                    t2 = substitute(t2, {L: NL})
                    return canon_inner_items(t2)
    return tuple(canon_inner_items(x) for x in t)


def norm_iter(it):
    """normal form of a loop iterable: dict iteration and list(...) wrappers are removed where
    they do not change the sequence of elements"""
    if isinstance(it, tuple) and it and it[0] == "call" and it[1] in ("list", "tuple") and len(it[2]) == 1:
        return norm_iter(it[2][0])
    if isinstance(it, tuple) and it and it[0] == "mcall" and it[2] == "keys":
        return norm_iter(it[1])
    return it


def split_conjuncts(loops, guards, term, out):
    """flatten And and `each` items into (loops, guards, body) triples"""
    if is_app(term, "And"):
        for a in term[2:]:
            split_conjuncts(loops, guards, a, out)
        return
    if isinstance(term, tuple) and term and term[0] == "each":
        split_conjuncts(tuple(loops) + tuple(term[1]), tuple(guards) + tuple(term[2]), term[3], out)
        return
    if isinstance(term, tuple) and term and term[0] == "list":
        for a in term[1]:
            split_conjuncts(loops, guards, a, out)
        return
    if isinstance(term, tuple) and term and term[0] == "phi" and len(term) == 4:
        # an assertion chosen by a python-level conditional: each alternative under its condition
        split_conjuncts(loops, tuple(guards) + (term[1],), term[2], out)
        split_conjuncts(loops, tuple(guards) + (app("not", term[1]),), term[3], out)
        return
    out.append((tuple(loops), tuple(guards), term))


def expand_concat(loops, guards, term) -> List[tuple]:
    """a loop over `a + b` is a loop over a followed by a loop over b"""
    for i, l in enumerate(loops):
        it = l[3]
        if is_app(it, "+") and len(it) == 4:
            out = []
            for part in (it[2], it[3]):
                nl = ("loop", l[1], l[2], part)
                m = {l: nl}
                nloops = tuple(loops[:i]) + (nl,) + tuple(substitute(x, m) for x in loops[i + 1:])
                out.extend(expand_concat(nloops, tuple(substitute(g, m) for g in guards), substitute(term, m)))
            return out
        if isinstance(it, tuple) and it and it[0] == "list":
            # a loop over a written list of sub-iterables is not expanded
            pass
    return [(tuple(loops), tuple(guards), term)]


def conj_groups(items: Iterable[Tuple[tuple, tuple, tuple]]) -> Dict[tuple, List[tuple]]:
    """group conjuncts by (loops, guards) signature with positional loop names"""
    groups: Dict[tuple, List[tuple]] = {}
    expanded = []
    for loops, guards, term in items:
        expanded.extend(expand_concat(loops, guards, term))
    for loops, guards, term in expanded:
        parts: List = []
        split_conjuncts(loops, guards, term, parts)
        for l, g, body in parts:
            nl, ng, nb = _rename_loops(l, g, body)
            ng = tuple(_range_guard(x, nl) for x in ng)
            # under a guard `elem == k` the body speaks about k
            pin = {x[2]: x[3] for x in ng if is_app(x, "==") and len(x) == 4 and is_const(x[3]) and isinstance(x[3][1], int)
                   and not isinstance(x[3][1], bool) and isinstance(x[2], tuple) and x[2] and x[2][0] == "elem"}
            if pin:
                nb = substitute(nb, pin)
            sig = (nl, tuple(sorted((norm(x) for x in ng), key=show)))
            groups.setdefault(sig, []).append(norm(nb))
    return groups


def _range_guard(g, loops):
    """guards that test the element of a `range(0, n)` loop against its first value have one spelling:
    e == 0 / not(e == 0)  (for e > 0, e >= 1, e != 0, e <= 0, e < 1 ...)"""
    from .decide import canon_atom
    neg = False
    t = g
    if is_app(t, "not") and len(t) == 3:
        neg, t = True, t[2]
    if not (is_app(t) and t[1] in ("<", "<=", ">", ">=", "==", "!=") and len(t) == 4):
        return g
    ca = canon_atom(t)
    if ca is None or len(ca[1].coef) != 1:
        return g
    (leaf, c), = ca[1].coef.items()
    if not (isinstance(leaf, tuple) and leaf and leaf[0] == "elem" and leaf[1] in loops and isinstance(leaf[1][3], tuple)
            and leaf[1][3][:2] == ("range", K(0))):
        return g
    const = ca[1].const
    first = app("==", leaf, K(0))
    res = None
    if ca[0] == "le":
        if c == 1 and const == 0:        # e <= 0
            res = first
        elif c == -1 and const == 1:     # e >= 1
            res = app("not", first)
    elif ca[0] == "eq" and const == 0:
        res = first
    elif ca[0] == "ne" and const == 0:
        res = app("not", first)
    if res is None:
        return g
    return app("not", res) if neg else res


def emission_items(emissions: Sequence[Emission]):
    return [(e.loops, e.guards, e.term) for e in emissions]


def show_sig(sig) -> str:
    loops, guards = sig
    s = ", ".join(f"e#{l[1]} in {show(l[3])}" for l in loops)
    if guards:
        s += " if " + " and ".join(show(g) for g in guards)
    return s or "(top level)"


# ---------------------------------------------------------------------------
# equivalence of two boolean templates
# ---------------------------------------------------------------------------
def interval_side_conditions(points: Sequence[tuple]) -> List[tuple]:
    """start <= end for every (X._start, X._end) pair and lo <= hi for every (Y[0], Y[1]) pair among the points"""
    side = []
    pts = list(points)
    for p in pts:
        if isinstance(p, tuple) and p and p[0] == "attr" and p[2] == "_start":
            q = ("attr", p[1], "_end")
            if q in pts:
                side.append(le(p, q))
        if isinstance(p, tuple) and p and p[0] == "idx" and p[2] == K(0):
            q = ("idx", p[1], K(1))
            if q in pts:
                side.append(le(p, q))
    return side


def decide_equiv(ctx, f_em, f_spec, side_extra: Sequence[tuple] = (), dont_care=None, mode="equiv",
                 max_points=6):
    """(ok, witness, method).  mode: 'equiv' | 'implies' (emitted => spec) | 'implied' (spec => emitted)"""
    f_em, f_spec = norm(f_em), norm(f_spec)
    if f_em == f_spec:
        return True, None, "identical normal forms"
    both = And(f_em, f_spec)
    pts = comparison_points(both)
    if pts is not None and len(pts) <= max_points:
        bools = [a for a in collect_atoms(both) if not (is_app(a) and a[1] in CMP_OPS and len(a) == 4)]
        if len(bools) <= 6:
            side = interval_side_conditions(pts) + list(side_extra)
            # side conditions may mention points that do not occur: drop those
            side = [s for s in side if all(norm(x) in pts or is_const(x) for x in s[2:4])]
            side_f = And(*side) if side else None
            if mode == "equiv":
                a, b = f_em, f_spec
            elif mode == "implies":
                a, b = Implies(f_em, f_spec), TRUE
            else:
                a, b = Implies(f_spec, f_em), TRUE
            ok, n, cex = order_type_check(a, b, pts, bools, side_f, dont_care)
            ctx.order_types += n
            ctx.exhaustive_spaces += 1
            return ok, (None if ok else cex), f"order types over {len(pts)} points x {len(bools)} flags ({n} evaluated)"
    if mode == "equiv":
        a, b = f_em, f_spec
    elif mode == "implies":
        a, b = Implies(f_em, f_spec), TRUE
    else:
        a, b = Implies(f_spec, f_em), TRUE
    ok, cex, vals = truth_table_equiv(a, b)
    return ok, (None if ok else {"atoms": cex, "emitted/spec": vals}), "truth table over canonical atoms"


def compare_groups(ctx, rule, where, location, em_items, spec_items, what: str, side_extra=(), dont_care=None,
                   mode="equiv", sample=True):
    """compare emitted conjunct groups with the spec's; reports violations through ctx.
    returns True when everything matched"""
    g_em, g_spec = conj_groups(em_items), conj_groups(spec_items)
    all_ok = True
    for sig in g_spec:
        if sig not in g_em:
            if mode == "implied":
                continue
            ctx.violation(rule, where, f"missing: {what} [{show_sig(sig)}]",
                          f"nothing is asserted for {show_sig(sig)}; the documented relation requires "
                          f"{show(norm(And(*g_spec[sig])))[:300]}", location)
            all_ok = False
    for sig in g_em:
        if sig not in g_spec:
            if mode == "implies":
                continue
            ctx.violation(rule, where, f"extra: {what} [{show_sig(sig)}]",
                          f"an assertion outside the documented relation is emitted for {show_sig(sig)}: "
                          f"{show(norm(And(*g_em[sig])))[:300]}", location)
            all_ok = False
    for sig in g_spec:
        if sig not in g_em:
            continue
        f_em, f_spec = And(*g_em[sig]), And(*g_spec[sig])
        dc = dont_care(sig) if callable(dont_care) else dont_care
        try:
            ok, wit, method = decide_equiv(ctx, f_em, f_spec, side_extra, dc, mode)
        except Undecided as u:
            raise P.AnalysisError(f"{rule}: cannot decide {where} [{show_sig(sig)}]: {u}")
        inst = f"{where} {what} [{show_sig(sig)}]"
        if ok:
            ctx.ok(rule, inst, sample={"emitted": show(norm(f_em))[:400], "spec": show(norm(f_spec))[:400],
                                       "decided_by": method} if sample else None)
        else:
            all_ok = False
            ctx.violation(rule, where, f"{what} [{show_sig(sig)}]",
                          f"emitted term is not {'equivalent to' if mode == 'equiv' else 'within'} the documented "
                          f"relation: emitted {show(norm(f_em))[:300]} ; documented {show(norm(f_spec))[:300]}",
                          location, witness=str(wit)[:500])
    return all_ok


# ---------------------------------------------------------------------------
# misc
# ---------------------------------------------------------------------------
def strip_applied(term):
    """Implies(<applied flag>, X) -> (X, flag) ; otherwise (term, None)"""
    if is_app(term, "Implies") and len(term) == 4:
        a = term[2]
        if isinstance(a, tuple) and a and a[0] == "z3var" and a[1] == "Bool" and "applied" in show(a[2]):
            return term[3], a
    return term, None


def set_true(term, flags: Sequence[tuple]):
    """substitute python True for the given boolean leaves (mandatory task: _scheduled is True)"""
    m = {f: TRUE for f in flags}
    return substitute(term, m) if m else term


def loc(e: Emission) -> str:
    s = e.stack[0] if e.stack else e.site
    return f"processscheduler/{s.module}.py:{s.lineno}"


def first_line(project, cls_name: str) -> str:
    c = project.cls(cls_name)
    return f"{project.relpath(c.module.path)}:{c.node.lineno}"


# ---------------------------------------------------------------------------
# the assertion stream of the solver driver
# ---------------------------------------------------------------------------
SOLVER_ASSERT = ("add", "assert_and_track")


def is_solver_handle(t) -> bool:
    return isinstance(t, tuple) and bool(t) and (
        (t[0] == "attr" and t[2] == "_solver") or
        (t[0] in ("call",) and str(t[1]).startswith("z3.") and t[1].split(".")[-1] in ("Optimize", "Solver", "SolverFor")) or
        (t[0] == "phi" and (is_solver_handle(t[2]) or is_solver_handle(t[3]))) or
        (t[0] == "loopout" and is_solver_handle(t[4])))


def solver_calls(run: Run, names=None):
    """method calls on the solver handle, in program order"""
    out = []
    for ev in run.events:
        if ev.kind == "mcall" and is_solver_handle(ev.data["recv"]) and (names is None or ev.data["name"] in names):
            out.append(ev)
    return out


def _spread(loops, guards, term, out, tag):
    """an asserted python list is asserted element by element"""
    if isinstance(term, tuple) and term and term[0] == "list":
        for x in term[1]:
            if isinstance(x, tuple) and x and x[0] == "each":
                _spread(tuple(loops) + tuple(x[1]), tuple(guards) + tuple(x[2]), x[3], out, tag)
            else:
                _spread(loops, guards, x, out, tag)
        return
    if isinstance(term, tuple) and term and term[0] == "idx" and term[2] == K(1) and isinstance(term[1], tuple) and term[1] \
            and term[1][0] == "call" and str(term[1][1]).startswith("util.sort_"):
        l = ("loop", ("spread", show(term)), "spread", term)
        out.append((tuple(loops) + (l,), tuple(guards), ("elem", l), tag))
        return
    if isinstance(term, tuple) and term and term[0] == "attr" and term[2] == "_z3_assertions":
        l = ("loop", ("spread", show(term)), "spread", term)
        out.append((tuple(loops) + (l,), tuple(guards), ("elem", l), tag))
        return
    if isinstance(term, tuple) and term and term[0] == "phi" and is_app(term[1], "not") and is_app(term[1][2], "isinstance") \
            and term[2] == ("list", (term[1][2][2],)) and term[3] == term[1][2][2]:
        # [x] if not isinstance(x, list) else x : x itself, element-wise when it is a list
        out.append((tuple(loops), tuple(guards), term[3], tag))
        return
    out.append((tuple(loops), tuple(guards), term, tag))


def solver_stream(run: Run):
    """[(loops, guards, term, event)] for every assertion handed to the solver handle"""
    out = []
    for ev in solver_calls(run, SOLVER_ASSERT):
        args = ev.data["args"]
        if not args:
            continue
        if ev.data["name"] == "add":
            for a in args:
                _spread(ev.loops, ev.guards, a, out, ev)
        else:
            _spread(ev.loops, ev.guards, args[0], out, ev)
    return out


def stream_groups(run: Run):
    return conj_groups([(l, g, t) for l, g, t, _ in solver_stream(run)])


# ---------------------------------------------------------------------------
# cardinality predicates: a term that constrains how many flags of one list are true, as a linear formula over
# (count, n, size) - so that  And(flags) under `n == len(flags)`  is recognised as `count >= n`, but not as `count <= n`
# ---------------------------------------------------------------------------
COUNT, SIZE = ("sym", "count_of_true_flags"), ("sym", "number_of_flags")


def cardinality_predicate(t, flag_each):
    """formula over COUNT / SIZE denoted by a term over the flags `flag_each` (an `each` item), or None when the term is not
    a recognised cardinality form.  Recognised: PbGe/PbLe/PbEq([(flag, 1)...], n), And / Or / Not(Or) of all the flags,
    python or z3 conditionals between such forms whose test compares arithmetic over len(<the flags>)."""
    from .decide import canon, norm as _norm
    fkey = repr(canon(_norm(flag_each)))

    def is_flags(x):
        """x: tuple of items that is exactly the flags (plain or paired with weight 1 / True)"""
        if len(x) != 1 or not (isinstance(x[0], tuple) and x[0] and x[0][0] == "each"):
            return None
        e = x[0]
        body = e[3]
        weighted = False
        if isinstance(body, tuple) and body and body[0] == "tuple" and len(body[1]) == 2 and body[1][1] in (TRUE, K(1)):
            body, weighted = body[1][0], True
        return weighted if repr(canon(_norm(("each", e[1], e[2], body)))) == fkey else None

    def size_subst(x):
        """len([flags]) / len(list the flags range over) -> SIZE inside a test"""
        m = {}
        for s_ in subterms(x):
            if s_ and s_[0] == "call" and s_[1] == "len" and len(s_[2]) == 1:
                a = s_[2][0]
                if isinstance(a, tuple) and a and a[0] == "list" and is_flags(a[1]) is not None:
                    m[s_] = SIZE
                elif _norm(a) == _norm(flag_each[1][-1][3]) and not flag_each[2]:
                    m[s_] = SIZE
        return substitute(x, m)

    def go(x):
        if x and x[0] == "phi":
            a, b = go(x[2]), go(x[3])
            return None if a is None or b is None else app("If", size_subst(x[1]), a, b)
        if is_app(x, "If") and len(x) == 5:
            a, b = go(x[3]), go(x[4])
            return None if a is None or b is None else app("If", size_subst(x[2]), a, b)
        if is_app(x) and x[1] in ("PbGe", "PbLe", "PbEq") and len(x) == 4:
            lst = x[2]
            if isinstance(lst, tuple) and lst and lst[0] == "list" and is_flags(lst[1]) is True:
                return app({"PbGe": ">=", "PbLe": "<=", "PbEq": "=="}[x[1]], COUNT, x[3])
            return None
        if is_app(x) and x[1] in ("And", "Or") and is_flags(x[2:]) is False:
            return app("==", COUNT, SIZE) if x[1] == "And" else app(">=", COUNT, K(1))
        if is_app(x, "Not") and len(x) == 3 and is_app(x[2], "Or") and is_flags(x[2][2:]) is False:
            return app("==", COUNT, K(0))
        return None
    return go(t)


def decide_cardinality(emitted, flag_each, relation, n_term, side=()):
    """(ok, detail): the emitted term constrains the number of true flags by `count <relation> n` for every n and size"""
    from .decide import linear_equiv, Undecided
    pred = cardinality_predicate(emitted, flag_each)
    if pred is None:
        return False, "not a cardinality constraint over all the flags"
    spec = app(relation, COUNT, n_term)
    try:
        ok, wit = linear_equiv(pred, spec, side=[app(">=", COUNT, K(0)), app("<=", COUNT, SIZE)] + list(side))
    except Undecided as u:
        return False, f"undecided ({u})"
    return ok, (f"count {relation} n for every count, n and list size ({wit})" if ok else
                f"differs from `count {relation} n` for {wit['values']} (emitted {wit['first']}, documented {wit['second']})")


def rejects_an_element(ev, list_term, attr: str) -> bool:
    """does this raise event reject the element list when SOME element fails a test on `attr`?  Accepted spellings:
    a raise inside a loop over the list under a guard that reads `attr`; or a raise after the loop whose guard is an
    existential over the list - any(...), not all(...), next((e for e in list if ...), None) is not None, a non-empty filtered
    list - whose filter / body reads `attr`"""
    from .decide import norm as _n
    want = _n(list_term)
    if ev.loops and _n(ev.loops[0][3]) == want and any(attr in show(g) for g in ev.guards):
        return True
    for g in ev.guards:
        for x in subterms(g):
            if isinstance(x, tuple) and x and x[0] == "each" and x[1] and _n(x[1][0][3]) == want \
                    and (any(attr in show(c) for c in x[2]) or attr in show(x[3])):
                return True
    return False


# ---------------------------------------------------------------------------
# lengths of sequences known from the source
# ---------------------------------------------------------------------------
def same_int(a, b) -> bool:
    """a and b denote the same integer (difference of the linear forms is the constant 0)"""
    from .decide import lin

    def known_len(t):
        if isinstance(t, tuple) and len(t) == 4 and t[0] == "call" and t[1] == "len" and len(t[2]) == 1:
            n_ = length_of(t[2][0])
            if n_ is not None and n_ != t:
                return rewrite(n_, known_len)
        return None
    a, b = rewrite(norm(a), known_len), rewrite(norm(b), known_len)
    d = lin(norm(a)).add(lin(norm(b)), -1)
    return d.is_const() and d.const == 0


def list_length(t):
    """length of a list / tuple term whose items are written in the source: plain items count one, an unguarded comprehension
    over `range(a, b)` counts b - a (assumed non-negative); None when not known"""
    if not (isinstance(t, tuple) and t and t[0] in ("list", "tuple")):
        return None
    total = K(0)
    for it in t[1]:
        if isinstance(it, tuple) and it and it[0] == "each":
            if len(it[1]) != 1 or it[2]:
                return None
            n_ = length_of(it[1][0][3])
            if n_ is None:
                return None
            total = add(total, n_)
        else:
            total = add(total, K(1))
    return total


_LENGTH_LEMMAS = {}


def length_of(it, lemmas=None):
    """term for the number of elements of an iterable term, or None: range(a, b) -> b - a; zip of equally long sequences;
    enumerate(x); a list written in the source; a call of a function for which a length lemma was decided (lemmas:
    {callee name: index of the argument that is the length})"""
    from .decide import canon
    lemmas = _LENGTH_LEMMAS if lemmas is None else lemmas
    if not isinstance(it, tuple) or not it:
        return None
    if it[0] == "range" and len(it) == 3:
        return it[2] if it[1] == K(0) else sub(it[2], it[1])
    if it[0] in ("list", "tuple"):
        return list_length(it)
    if it[0] == "sym":
        return ("call", "len", (it,), ())           # a named sequence has len(name) elements
    if it[0] == "call":
        name = it[1].split(".")[-1]
        if name == "enumerate" and it[2]:
            return length_of(it[2][0], lemmas)
        if name in ("list", "tuple", "reversed", "sorted") and len(it[2]) == 1:
            return length_of(it[2][0], lemmas)
        if name == "zip" and it[2]:
            ls = [length_of(a, lemmas) for a in it[2]]
            if all(l is not None for l in ls) and all(same_int(l, ls[0]) for l in ls):
                return ls[0]
            return None
        if name in lemmas and len(it[2]) > lemmas[name]:
            return it[2][lemmas[name]]
    return None


def decide_length_lemma(ctx, rule, module, fname, arg_index) -> bool:
    """every normal return of module.fname(.., n, ..) is a sequence of n elements: its written length is n, or the function
    itself raises when `len(<returned list>) != n`.  Registers the lemma for length_of when it holds."""
    from .decide import canon
    fn = ctx.project.function(module, fname)
    n_ = S(fn.args.args[arg_index].arg)
    runs = runs_of(ctx, Entry("func", module=module, name=fname))
    fails_closed(ctx, rule, runs)
    ok_all, seen = True, 0
    for r in runs:
        if r.rejected:
            continue
        seen += 1
        rv = r.retval
        ln = list_length(rv) if isinstance(rv, tuple) else None
        ok = ln is not None and same_int(ln, n_)
        if not ok and isinstance(rv, tuple):
            want = norm(ne(("call", "len", (rv,), ()), n_))
            ok = any(norm(g) == want for ev in r.events_of("raise") for g in ev.guards)
        ok_all = ok_all and ok
    if ok_all and seen:
        _LENGTH_LEMMAS[fname] = arg_index
        ctx.ok(rule, f"lemma: {module}.{fname} returns {show(n_)} elements on every normal return ({seen} paths)")
    else:
        _LENGTH_LEMMAS.pop(fname, None)
    return ok_all and bool(seen)


def sequence_at_position(t, L):
    """the sequence of which `t` is the element at the current position of loop L, in the ways of walking several sequences
    in step: components of zip(A, B), enumerate(X) / enumerate(zip(..)), X[position] with position the loop's own index
    (range(0, n) element, enumerate index, position marker); None when `t` is nothing of the kind"""
    e = elem(L)
    src = L[3]

    def of(x, seq):
        if x == e:
            return seq
        if isinstance(x, tuple) and len(x) == 3 and x[0] == "idx" and is_const(x[2]):
            inner = of(x[1], seq)
            if isinstance(inner, tuple) and inner and inner[0] == "call" and inner[1] == "zip" \
                    and isinstance(x[2][1], int) and x[2][1] < len(inner[2]):
                return inner[2][x[2][1]]
            if isinstance(inner, tuple) and inner and inner[0] == "call" and inner[1] == "enumerate" and x[2] == K(1):
                return inner[2][0]
        return None
    got = of(t, src)
    if got is not None and got is not src:
        return got
    if isinstance(t, tuple) and len(t) == 3 and t[0] == "idx":
        position = t[2]
        at_pos = position == ("pos", L) or (src[0] == "range" and len(src) == 3 and same_int(position, sub(e, src[1]))) \
            or (src[0] == "call" and src[1] == "enumerate" and position == ("idx", e, K(0)))
        if at_pos:
            return t[1]
    return None


def value_alternatives(t, guards=()):
    """the alternatives of a value merged from several returns / branches: [(guards as (atom, polarity) pairs, value)], without
    the alternatives whose guards contradict each other (`c` and `not c` on one path)"""
    def lit(g, pol):
        g = norm(g)
        while is_app(g, "not") and len(g) == 3:
            g, pol = g[2], not pol
        return (g, pol)
    if isinstance(t, tuple) and t and t[0] == "phi" and len(t) == 4:
        return value_alternatives(t[2], guards + (lit(t[1], True),)) + value_alternatives(t[3], guards + (lit(t[1], False),))
    held = {}
    for g, pol in guards:
        if held.setdefault(g, pol) != pol:
            return []
    return [(guards, t)]
