"""Check context: obligations, findings, known findings, evidence files, exit codes."""
from __future__ import annotations

import json
import os
import sys
import time
from dataclasses import dataclass, field
from typing import Dict, List, Optional

from . import project as P

VERIF = os.path.dirname(os.path.dirname(os.path.abspath(__file__)))
KNOWN_FILE = os.path.join(VERIF, "known_findings.json")


@dataclass
class Finding:
    prop: str
    rule: str
    where: str            # class.function / module.function - never a line number
    construct: str        # normalised text of the offending construct
    message: str
    location: str = ""    # file:line for the human reader only
    witness: str = ""

    def key(self):
        return (self.rule, self.where, self.construct)


class Ctx:
    def __init__(self, prop: str, tier: str, project: P.Project):
        self.prop = prop
        self.tier = tier
        self.project = project
        self.t0 = time.time()
        self.findings: List[Finding] = []
        self.obligations = 0
        self.discharged = 0
        self.evaluations = 0
        self.nontrivial = set()
        self.samples: List[dict] = []
        self.rule_stats: Dict[str, Dict[str, int]] = {}
        self.functions_analysed = set()
        self.paths = 0
        self.emissions = 0
        self.order_types = 0
        self.exhaustive_spaces = 0
        self.notes: List[str] = []
        self.assumptions: List[str] = []
        self.extra: Dict[str, object] = {}

    def has_new_violation(self) -> bool:
        """a finding that the known-findings file does not list (what finish() will print as a VIOLATION)"""
        known = [k for k in load_known() if (k.get("property") == self.prop or self.prop in k.get("also", []))
                 and k.get("status", "known") == "known"]
        return any(not any(k.get("rule") == f.rule and k.get("where") == f.where and k.get("construct") == f.construct for k in known)
                   for f in self.findings)

    # -- bookkeeping -----------------------------------------------------------
    def _stat(self, rule):
        return self.rule_stats.setdefault(rule, {"instances": 0, "held": 0, "violated": 0})

    def ok(self, rule: str, instance: str, detail: str = "", nontrivial: bool = True, sample: Optional[dict] = None):
        """one obligation of `rule` was evaluated on `instance` and held"""
        self.obligations += 1
        self.discharged += 1
        self.evaluations += 1
        st = self._stat(rule)
        st["instances"] += 1
        st["held"] += 1
        if nontrivial:
            self.nontrivial.add((rule, instance))
        if sample is not None and len([s for s in self.samples if s.get("rule") == rule]) < 2:
            d = {"rule": rule, "instance": instance}
            d.update(sample)
            self.samples.append(d)
        elif detail and len([s for s in self.samples if s.get("rule") == rule]) < 1:
            self.samples.append({"rule": rule, "instance": instance, "detail": detail[:600]})

    def violation(self, rule: str, where: str, construct: str, message: str, location: str = "", witness: str = "",
                  prop: Optional[str] = None):
        self.obligations += 1
        self.evaluations += 1
        st = self._stat(rule)
        st["instances"] += 1
        st["violated"] += 1
        self.nontrivial.add((rule, where + construct))
        f = Finding(prop or self.prop, rule, where, construct[:400], message, location, witness)
        if f.key() not in [x.key() for x in self.findings]:
            self.findings.append(f)

    def floor(self, rule: str, what: str, found: int, minimum: int):
        """fail closed when a rule matches fewer instances than were confirmed by hand"""
        if found < minimum:
            raise P.AnalysisError(f"{rule}: only {found} {what} found, at least {minimum} expected "
                                  f"(the rule would pass vacuously)")

    def analysed(self, label: str, paths: int = 0, emissions: int = 0):
        self.functions_analysed.add(label)
        self.paths += paths
        self.emissions += emissions

    def note(self, s: str):
        if s not in self.notes:
            self.notes.append(s)

    def assume(self, s: str):
        if s not in self.assumptions:
            self.assumptions.append(s)


def load_known() -> List[dict]:
    if not os.path.exists(KNOWN_FILE):
        return []
    with open(KNOWN_FILE) as f:
        return json.load(f).get("findings", [])


def finish(ctx: Ctx, explanation: str, level: str = "other") -> int:
    """print the verdict lines, write evidence, return the exit code"""
    known = [k for k in load_known() if (k.get("property") == ctx.prop or ctx.prop in k.get("also", []))
             and k.get("status", "known") == "known"]
    unlisted, listed = [], []
    for f in ctx.findings:
        hit = None
        for k in known:
            if k.get("rule") == f.rule and k.get("where") == f.where and k.get("construct") == f.construct:
                hit = k
                break
        (listed if hit else unlisted).append((f, hit))
    for f, k in listed:
        print(f"KNOWN-FINDING: property={ctx.prop} {f.rule} {f.where}: {k.get('what_fails', f.message)}")
    replay_dir = os.path.join(VERIF, "replay", ctx.prop)
    for i, (f, _) in enumerate(unlisted):
        os.makedirs(replay_dir, exist_ok=True)
        rp = os.path.join(replay_dir, f"{i}.json")
        with open(rp, "w") as fh:
            json.dump({"property": f.prop, "rule": f.rule, "where": f.where, "construct": f.construct,
                       "message": f.message, "location": f.location, "witness": f.witness,
                       "repo": ctx.project.repo, "source_digest": ctx.project.digest}, fh, indent=1)
        print(f"{f.location or f.where}  {f.rule}  {f.where}: {f.message}")
        if f.witness:
            print(f"    witness: {f.witness}")
        print(f"VIOLATION property={ctx.prop} replay={rp}")
    wall = time.time() - ctx.t0
    stats = ctx.project.stats()
    cov = {
        "explanation": explanation,
        "obligations": ctx.obligations,
        "discharged": ctx.discharged,
        "evaluations": max(ctx.evaluations, 1),
        "distinct_nontrivial": len(ctx.nontrivial),
        "rule": "one evaluation per (rule, instance) obligation extracted from /repo's source on this run; "
                "an instance is non-trivial when the rule had to decide something on it (a term compared, a path "
                "followed, a table looked up) - instances are distinct by (rule, class/function, construct)",
        "samples": ctx.samples[:12] or [{"note": "no instance"}],
        "exhaustive": True,
        "checker_cmd": f"./check {ctx.prop} --tier {ctx.tier}",
        "trusted_base": ["python ast parser", "z3 returns models of what is asserted", "pydantic enforces declared annotations",
                         "specification tables under /verif/specs"],
        "rules": ctx.rule_stats,
        "functions_analysed": sorted(ctx.functions_analysed),
        "n_functions_analysed": len(ctx.functions_analysed),
        "configuration_paths": ctx.paths,
        "emission_sites_seen": ctx.emissions,
        "order_type_evaluations": ctx.order_types,
        "known_findings": [f"{f.rule} {f.where}" for f, _ in listed],
        "unlisted_violations": [f"{f.rule} {f.where}: {f.message}" for f, _ in unlisted],
        "notes": ctx.notes,
        "program": stats,
    }
    cov.update(ctx.extra)
    ev = {"property_id": ctx.prop, "tier": ctx.tier, "seed": int(os.environ.get("VERIF_SEED", "0") or 0),
          "level": level, "coverage": cov, "assumptions": ctx.assumptions, "wall_s": round(wall, 3),
          "violations": len(unlisted)}
    # evidence/ describes /repo only: a run against another tree (--repo, used for seeded changes and the original
    # snapshot) leaves it alone and writes under the git-ignored replay/ directory instead
    on_repo = os.path.realpath(ctx.project.repo) == os.path.realpath("/repo")
    ev_dir = os.path.join(VERIF, "evidence") if on_repo else os.path.join(VERIF, "replay", "other-tree-evidence")
    os.makedirs(ev_dir, exist_ok=True)
    with open(os.path.join(ev_dir, f"{ctx.prop}.json"), "w") as fh:
        json.dump(ev, fh, indent=1, default=str)
    print(f"{ctx.prop}: {ctx.obligations} obligations, {ctx.discharged} held, {len(listed)} known finding(s), "
          f"{len(unlisted)} violation(s); {len(ctx.functions_analysed)} functions, {ctx.paths} configuration paths, "
          f"{ctx.order_types} order-type evaluations; {wall:.2f}s")
    return 1 if unlisted else 0
