"""E1 - project model: the resolved program, reconstructed from source only.

Nothing from the repository is imported or executed.  Modules are parsed with
``ast``; classes, pydantic fields (with their normalised types and value
constraints), private attributes, methods and a linearised MRO are tabulated.
"""
from __future__ import annotations

import ast
import hashlib
import os
from dataclasses import dataclass, field
from typing import Dict, List, Optional, Tuple

REPO = os.environ.get("VERIF_REPO", "/repo")
PKG = "processscheduler"

MISSING = object()


class AnalysisError(Exception):
    """The analyser cannot decide (unknown idiom, vanished anchor...)."""


# ---------------------------------------------------------------------------
# normalised types
# ---------------------------------------------------------------------------
# ('cls', name) | ('union', (t...)) | ('list', t) | ('dict', k, v) | ('tuple', (t...))
# | ('literal', (values...)) | ('prim', 'int'|'str'|'bool'|'float'|'any'|...)
# | ('none',) | ('z3', 'ArithRef'|'BoolRef')
# | ('int', lo, hi)   integer interval (None = unbounded)

def t_union(ts):
    flat = []
    for t in ts:
        if t[0] == "union":
            flat.extend(t[1])
        else:
            flat.append(t)
    out = []
    for t in flat:
        if t not in out:
            out.append(t)
    if len(out) == 1:
        return out[0]
    return ("union", tuple(out))


def type_alternatives(t):
    if t is None:
        return []
    if t[0] == "union":
        return list(t[1])
    return [t]


def type_allows_none(t):
    return any(a == ("none",) for a in type_alternatives(t))


def type_classes(t):
    """class names a value of this type may be an instance of"""
    return [a[1] for a in type_alternatives(t) if a[0] == "cls"]


PYDANTIC_INT_ALIASES = {
    "PositiveInt": ("int", 1, None),
    "NonNegativeInt": ("int", 0, None),
    "NegativeInt": ("int", None, -1),
    "NonPositiveInt": ("int", None, 0),
    "int": ("int", None, None),
}
PRIMS = {
    "str": ("prim", "str"),
    "bool": ("prim", "bool"),
    "StrictBool": ("prim", "strictbool"),
    "float": ("prim", "float"),
    "PositiveFloat": ("prim", "posfloat"),
    "Any": ("prim", "any"),
    "Callable": ("prim", "callable"),
    "timedelta": ("prim", "timedelta"),
    "datetime": ("prim", "datetime"),
}


def parse_type(node) -> tuple:
    """annotation AST -> normalised type"""
    if node is None:
        return ("prim", "any")
    if isinstance(node, ast.Constant):
        if node.value is None:
            return ("none",)
        if isinstance(node.value, str):
            try:
                return parse_type(ast.parse(node.value, mode="eval").body)
            except SyntaxError:
                return ("prim", "any")
        return ("prim", "any")
    if isinstance(node, ast.Name):
        if node.id in PYDANTIC_INT_ALIASES:
            return PYDANTIC_INT_ALIASES[node.id]
        if node.id in PRIMS:
            return PRIMS[node.id]
        if node.id == "None":
            return ("none",)
        return ("cls", node.id)
    if isinstance(node, ast.Attribute):
        if isinstance(node.value, ast.Name) and node.value.id == "z3":
            return ("z3", node.attr)
        return ("cls", node.attr)
    if isinstance(node, ast.BinOp) and isinstance(node.op, ast.BitOr):
        return t_union([parse_type(node.left), parse_type(node.right)])
    if isinstance(node, ast.Subscript):
        head = node.value
        hname = head.id if isinstance(head, ast.Name) else getattr(head, "attr", "")
        sl = node.slice
        elts = list(sl.elts) if isinstance(sl, ast.Tuple) else [sl]
        if hname == "Union":
            return t_union([parse_type(e) for e in elts])
        if hname == "Optional":
            return t_union([parse_type(elts[0]), ("none",)])
        if hname in ("List", "list"):
            return ("list", parse_type(elts[0]))
        if hname in ("Dict", "dict"):
            return ("dict", parse_type(elts[0]), parse_type(elts[1]) if len(elts) > 1 else ("prim", "any"))
        if hname in ("Tuple", "tuple"):
            return ("tuple", tuple(parse_type(e) for e in elts))
        if hname == "Literal":
            vals = []
            for e in elts:
                if isinstance(e, ast.Constant):
                    vals.append(e.value)
                else:
                    raise AnalysisError(f"non-constant Literal element at line {e.lineno}")
            return ("literal", tuple(vals))
        return ("prim", "any")
    return ("prim", "any")


def show_type(t) -> str:
    if t is None:
        return "?"
    k = t[0]
    if k == "cls":
        return t[1]
    if k == "union":
        return "Union[" + ", ".join(show_type(a) for a in t[1]) + "]"
    if k == "list":
        return f"List[{show_type(t[1])}]"
    if k == "dict":
        return f"Dict[{show_type(t[1])}, {show_type(t[2])}]"
    if k == "tuple":
        return "Tuple[" + ", ".join(show_type(a) for a in t[1]) + "]"
    if k == "literal":
        return "Literal[" + ", ".join(repr(v) for v in t[1]) + "]"
    if k == "int":
        lo = "-inf" if t[1] is None else t[1]
        hi = "+inf" if t[2] is None else t[2]
        return f"int[{lo},{hi}]"
    if k == "none":
        return "None"
    if k == "z3":
        return "z3." + t[1]
    return t[1] if len(t) > 1 else k


# ---------------------------------------------------------------------------
@dataclass
class FieldInfo:
    name: str
    owner: str
    type: tuple
    ann_src: str
    default: object = MISSING          # python constant, or ('expr', src) for non constant, MISSING if required
    default_node: Optional[ast.AST] = None
    constraints: Dict[str, object] = field(default_factory=dict)   # ge/gt/le/lt/min_length/max_length
    lineno: int = 0

    @property
    def required(self):
        return self.default is MISSING

    def may_be_none(self) -> bool:
        """can the attribute hold None at run time (pydantic does not validate defaults)"""
        if type_allows_none(self.type):
            return True
        return self.default is None

    def int_interval(self) -> Optional[Tuple[Optional[int], Optional[int]]]:
        """integer interval of the accepted (non None) values, if the type is integer"""
        lo = hi = None
        found = False
        for a in type_alternatives(self.type):
            if a[0] == "int":
                found = True
                lo, hi = a[1], a[2]
        if not found:
            return None
        c = self.constraints
        if "ge" in c:
            lo = c["ge"] if lo is None else max(lo, c["ge"])
        if "gt" in c:
            lo = c["gt"] + 1 if lo is None else max(lo, c["gt"] + 1)
        if "le" in c:
            hi = c["le"] if hi is None else min(hi, c["le"])
        if "lt" in c:
            hi = c["lt"] - 1 if hi is None else min(hi, c["lt"] - 1)
        return (lo, hi)


@dataclass
class ClassInfo:
    name: str
    module: "ModuleInfo"
    node: ast.ClassDef
    base_names: List[str]
    fields: Dict[str, FieldInfo] = field(default_factory=dict)      # own fields
    methods: Dict[str, ast.FunctionDef] = field(default_factory=dict)  # own methods
    model_config: Dict[str, object] = field(default_factory=dict)
    mro: List["ClassInfo"] = field(default_factory=list)

    def all_fields(self) -> Dict[str, FieldInfo]:
        out: Dict[str, FieldInfo] = {}
        for c in reversed(self.mro):
            out.update(c.fields)
        return out

    def find_method(self, name, after: Optional["ClassInfo"] = None):
        """(class, FunctionDef) of the first definition of `name` in the MRO
        (strictly after class `after` if given - used for super())"""
        seen_after = after is None
        for c in self.mro:
            if not seen_after:
                if c is after:
                    seen_after = True
                continue
            if name in c.methods:
                return c, c.methods[name]
        return None, None

    def is_subclass_of(self, name: str) -> bool:
        return any(c.name == name for c in self.mro)

    def config_value(self, key):
        for c in self.mro:
            if key in c.model_config:
                return c.model_config[key]
        return None


@dataclass
class ModuleInfo:
    name: str
    path: str
    src: str
    tree: ast.Module
    imports: Dict[str, Tuple[str, Optional[str]]] = field(default_factory=dict)   # local -> (module, attr|None)
    star_imports: List[str] = field(default_factory=list)
    classes: Dict[str, ClassInfo] = field(default_factory=dict)
    functions: Dict[str, ast.FunctionDef] = field(default_factory=dict)
    globals_assigned: Dict[str, ast.AST] = field(default_factory=dict)

    @property
    def short(self):
        return self.name.split(".")[-1]


def _const(node):
    """python constant of an AST node or raise ValueError"""
    if isinstance(node, ast.Constant):
        return node.value
    if isinstance(node, ast.UnaryOp) and isinstance(node.op, ast.USub) and isinstance(node.operand, ast.Constant):
        return -node.operand.value
    if isinstance(node, (ast.List, ast.Tuple)):
        return [_const(e) for e in node.elts]
    if isinstance(node, ast.Dict) and not node.keys:
        return {}
    raise ValueError


class Project:
    def __init__(self, repo: str = None):
        self.repo = repo or REPO
        self.pkgdir = os.path.join(self.repo, PKG)
        if not os.path.isdir(self.pkgdir):
            raise AnalysisError(f"package directory {self.pkgdir} not found")
        self.modules: Dict[str, ModuleInfo] = {}
        self.classes: Dict[str, ClassInfo] = {}
        self.digest = ""
        self._load()

    # -- loading -----------------------------------------------------------
    def _load(self):
        h = hashlib.sha256()
        for fn in sorted(os.listdir(self.pkgdir)):
            if not fn.endswith(".py"):
                continue
            path = os.path.join(self.pkgdir, fn)
            with open(path, encoding="utf-8") as f:
                src = f.read()
            h.update(fn.encode())
            h.update(src.encode())
            try:
                tree = ast.parse(src, filename=path)
            except SyntaxError as e:
                raise AnalysisError(f"{path}: does not parse: {e}")
            mname = f"{PKG}.{fn[:-3]}" if fn != "__init__.py" else PKG
            m = ModuleInfo(mname, path, src, tree)
            for node in ast.walk(tree):
                for child in ast.iter_child_nodes(node):
                    child._parent = node  # type: ignore
            self._scan_module(m)
            self.modules[mname] = m
        self.digest = h.hexdigest()
        # class table (names are unique across the package - checked)
        for m in self.modules.values():
            for c in m.classes.values():
                if c.name in self.classes and self.classes[c.name].module is not m:
                    raise AnalysisError(f"class name {c.name} defined in two modules")
                self.classes[c.name] = c
        for c in self.classes.values():
            c.mro = self._linearise(c)

    def _scan_module(self, m: ModuleInfo):
        for node in m.tree.body:
            self._scan_toplevel(m, node)

    def _scan_toplevel(self, m, node):
        if isinstance(node, ast.Import):
            for a in node.names:
                if a.asname:
                    m.imports[a.asname] = (a.name, None)
                else:
                    m.imports[a.name.split(".")[0]] = (a.name.split(".")[0], None)
        elif isinstance(node, ast.ImportFrom):
            for a in node.names:
                if a.name == "*":
                    m.star_imports.append(node.module)
                else:
                    m.imports[a.asname or a.name] = (node.module, a.name)
        elif isinstance(node, ast.ClassDef):
            m.classes[node.name] = self._scan_class(m, node)
        elif isinstance(node, (ast.FunctionDef, ast.AsyncFunctionDef)):
            m.functions[node.name] = node
        elif isinstance(node, ast.Assign):
            for t in node.targets:
                if isinstance(t, ast.Name):
                    m.globals_assigned[t.id] = node.value
        elif isinstance(node, ast.AnnAssign) and isinstance(node.target, ast.Name) and node.value is not None:
            m.globals_assigned[node.target.id] = node.value
        elif isinstance(node, ast.Try):
            for sub in node.body + [s for h in node.handlers for s in h.body] + node.orelse + node.finalbody:
                self._scan_toplevel(m, sub)
        elif isinstance(node, ast.If):
            for sub in node.body + node.orelse:
                self._scan_toplevel(m, sub)

    def _scan_class(self, m, node: ast.ClassDef) -> ClassInfo:
        bases = []
        for b in node.bases:
            if isinstance(b, ast.Name):
                bases.append(b.id)
            elif isinstance(b, ast.Attribute):
                bases.append(b.attr)
        c = ClassInfo(node.name, m, node, bases)
        for st in node.body:
            if isinstance(st, ast.AnnAssign) and isinstance(st.target, ast.Name):
                c.fields[st.target.id] = self._scan_field(c, st, m)
            elif isinstance(st, (ast.FunctionDef, ast.AsyncFunctionDef)):
                c.methods[st.name] = st
            elif isinstance(st, ast.Assign) and len(st.targets) == 1 and isinstance(st.targets[0], ast.Name) \
                    and st.targets[0].id == "model_config":
                v = st.value
                if isinstance(v, ast.Call):
                    for kw in v.keywords:
                        try:
                            c.model_config[kw.arg] = _const(kw.value)
                        except ValueError:
                            c.model_config[kw.arg] = ("expr", ast.unparse(kw.value))
                elif isinstance(v, ast.Dict):
                    for k, val in zip(v.keys, v.values):
                        try:
                            c.model_config[_const(k)] = _const(val)
                        except ValueError:
                            pass
        return c

    def _scan_field(self, c: ClassInfo, st: ast.AnnAssign, m) -> FieldInfo:
        typ = parse_type(st.annotation)
        fi = FieldInfo(st.target.id, c.name, typ, ast.unparse(st.annotation), lineno=st.lineno)
        v = st.value
        if v is None:
            return fi
        if isinstance(v, ast.Call) and isinstance(v.func, ast.Name) and v.func.id == "Field":
            has_default = False
            if v.args:
                a0 = v.args[0]
                if not (isinstance(a0, ast.Constant) and a0.value is Ellipsis):
                    has_default = True
                    fi.default_node = a0
            for kw in v.keywords:
                if kw.arg == "default":
                    has_default = True
                    fi.default_node = kw.value
                elif kw.arg == "default_factory":
                    has_default = True
                    fi.default_node = kw.value
                    fi.default = ("factory", ast.unparse(kw.value))
                elif kw.arg in ("ge", "gt", "le", "lt", "min_length", "max_length", "multiple_of"):
                    try:
                        fi.constraints[kw.arg] = _const(kw.value)
                    except ValueError:
                        raise AnalysisError(f"{m.path}:{kw.value.lineno}: non-constant Field({kw.arg}=...)")
            if has_default and fi.default is MISSING:
                try:
                    fi.default = _const(fi.default_node)
                except ValueError:
                    fi.default = ("expr", ast.unparse(fi.default_node))
        else:
            fi.default_node = v
            try:
                fi.default = _const(v)
            except ValueError:
                fi.default = ("expr", ast.unparse(v))
        return fi

    def _linearise(self, c: ClassInfo, _depth=0) -> List[ClassInfo]:
        """C3 is overkill here (single inheritance everywhere) - checked"""
        out = [c]
        repo_bases = [b for b in c.base_names if b in self.classes]
        if len(repo_bases) > 1:
            raise AnalysisError(f"class {c.name}: multiple repository bases, MRO not supported")
        if _depth > 20:
            raise AnalysisError("inheritance cycle")
        if repo_bases:
            out.extend(self._linearise(self.classes[repo_bases[0]], _depth + 1))
        return out

    # -- queries -------------------------------------------------------------
    def module(self, short: str) -> ModuleInfo:
        name = f"{PKG}.{short}" if short != PKG and not short.startswith(PKG) else short
        if name not in self.modules:
            raise AnalysisError(f"anchor vanished: module {name}")
        return self.modules[name]

    def cls(self, name: str) -> ClassInfo:
        if name not in self.classes:
            raise AnalysisError(f"anchor vanished: class {name}")
        return self.classes[name]

    def subclasses(self, name: str, strict=True) -> List[ClassInfo]:
        out = []
        for c in self.classes.values():
            if c.is_subclass_of(name) and (not strict or c.name != name):
                out.append(c)
        return sorted(out, key=lambda c: (c.module.name, c.node.lineno))

    def concrete_subclasses(self, name: str) -> List[ClassInfo]:
        """subclasses that no other class derives from (leaves) plus any class
        that defines its own __init__ and is exported - a practical notion of
        'instantiable' for this code base: every class is instantiable, so all
        strict subclasses are returned."""
        return self.subclasses(name, strict=True)

    def function(self, module_short: str, name: str) -> ast.FunctionDef:
        m = self.module(module_short)
        if name not in m.functions:
            raise AnalysisError(f"anchor vanished: function {module_short}.{name}")
        return m.functions[name]

    def method(self, cls_name: str, meth: str):
        c = self.cls(cls_name)
        oc, fn = c.find_method(meth)
        if fn is None:
            raise AnalysisError(f"anchor vanished: method {cls_name}.{meth}")
        return oc, fn

    def resolve_name(self, m: ModuleInfo, name: str):
        """what a bare name denotes in module m:
        ('class', ClassInfo) | ('func', ModuleInfo, FunctionDef) | ('module', modname) | ('ext', dotted) | None"""
        if name in m.classes:
            return ("class", m.classes[name])
        if name in m.functions:
            return ("func", m, m.functions[name])
        if name in m.imports:
            mod, attr = m.imports[name]
            if attr is None:
                return ("module", mod)
            if mod in self.modules:
                return self.resolve_name(self.modules[mod], attr) or ("ext", f"{mod}.{attr}")
            return ("ext", f"{mod}.{attr}")
        for sm in m.star_imports:
            if sm in self.modules:
                r = self.resolve_name(self.modules[sm], name)
                if r is not None and r[0] in ("class", "func"):
                    return r
        return None

    def relpath(self, path: str) -> str:
        return os.path.relpath(path, self.repo)

    def stats(self) -> dict:
        nfun = 0
        for m in self.modules.values():
            for n in ast.walk(m.tree):
                if isinstance(n, (ast.FunctionDef, ast.AsyncFunctionDef)):
                    nfun += 1
        return {"modules": len(self.modules), "classes": len(self.classes), "functions": nfun,
                "source_digest": self.digest[:16]}


_cache: Dict[str, Project] = {}


def load(repo: str = None) -> Project:
    repo = repo or os.environ.get("VERIF_REPO", "/repo")
    if repo not in _cache:
        _cache[repo] = Project(repo)
    return _cache[repo]
