"""E4 - per-function statement CFG with path and typestate helpers (pure stdlib).

Nodes are statements (compound statements contribute a test / loop-head node); edges carry a label:
  None  sequential     'T' / 'F'  branch of a test     'iter' / 'done'  for-loop     'back'  loop back edge
"""
from __future__ import annotations

import ast
from typing import Callable, Dict, Iterable, List, Optional, Set, Tuple


class Node:
    __slots__ = ("id", "kind", "ast", "succ", "pred", "loop")

    def __init__(self, id_, kind, node=None):
        self.id = id_
        self.kind = kind          # entry | exit | raise | stmt | test | forhead | whilehead | join
        self.ast = node
        self.succ: List[Tuple["Node", Optional[str]]] = []
        self.pred: List[Tuple["Node", Optional[str]]] = []
        self.loop = None

    @property
    def lineno(self):
        return getattr(self.ast, "lineno", 0)

    def src(self) -> str:
        if self.ast is None:
            return self.kind
        if self.kind in ("test", "whilehead"):
            return ast.unparse(self.ast.test)
        if self.kind == "forhead":
            return f"for {ast.unparse(self.ast.target)} in {ast.unparse(self.ast.iter)}"
        return ast.unparse(self.ast).split("\n")[0]

    def __repr__(self):
        return f"<{self.id}:{self.kind}:{self.lineno}>"


class CFG:
    def __init__(self, fn: ast.FunctionDef):
        self.fn = fn
        self.nodes: List[Node] = []
        self.entry = self._new("entry")
        self.exit = self._new("exit")
        self.raise_exit = self._new("raise")
        self._loops: List[Tuple[Node, Node]] = []   # (head, after)
        last = self._block(fn.body, [(self.entry, None)])
        for n, lab in last:
            self._edge(n, self.exit, lab)

    def _new(self, kind, node=None) -> Node:
        n = Node(len(self.nodes), kind, node)
        self.nodes.append(n)
        return n

    def _edge(self, a: Node, b: Node, label=None):
        a.succ.append((b, label))
        b.pred.append((a, label))

    def _connect(self, frontier, node):
        for n, lab in frontier:
            self._edge(n, node, lab)

    def _block(self, stmts, frontier):
        for st in stmts:
            if not frontier:
                break
            frontier = self._stmt(st, frontier)
        return frontier

    def _stmt(self, st, frontier):
        if isinstance(st, ast.If):
            t = self._new("test", st)
            self._connect(frontier, t)
            a = self._block(st.body, [(t, "T")])
            b = self._block(st.orelse, [(t, "F")]) if st.orelse else [(t, "F")]
            return a + b
        if isinstance(st, ast.For) and not st.orelse and isinstance(st.iter, ast.Call) and not st.iter.keywords \
                and ast.unparse(st.iter.func) in ("itertools.count", "count") and len(st.iter.args) <= 2:
            # for i in itertools.count(a): BODY never runs out: `while True: i = <next of the counter>; BODY`
            start = ast.unparse(st.iter.args[0]) if st.iter.args else "0"
            bind = ast.Assign(targets=[st.target], value=ast.parse(f"__next_of_count__({start})", mode="eval").body, lineno=st.lineno)
            loop = ast.While(test=ast.Constant(value=True), body=[bind] + list(st.body), orelse=[])
            for n_ in (bind, loop):
                ast.copy_location(n_, st)
                ast.fix_missing_locations(n_)
            st = loop
        if isinstance(st, ast.While):
            h = self._new("whilehead", st)
            self._connect(frontier, h)
            after = self._new("join", st)
            self._loops.append((h, after))
            always = isinstance(st.test, ast.Constant) and bool(st.test.value)
            body_end = self._block(st.body, [(h, "T")])
            for n, lab in body_end:
                self._edge(n, h, "back")
            self._loops.pop()
            if not always:
                self._edge(h, after, "F")
            if st.orelse:
                return self._block(st.orelse, [(after, None)])
            return [(after, None)] if after.pred else []
        if isinstance(st, ast.For):
            h = self._new("forhead", st)
            self._connect(frontier, h)
            after = self._new("join", st)
            self._loops.append((h, after))
            body_end = self._block(st.body, [(h, "iter")])
            for n, lab in body_end:
                self._edge(n, h, "back")
            self._loops.pop()
            self._edge(h, after, "done")
            if st.orelse:
                return self._block(st.orelse, [(after, None)])
            return [(after, None)]
        if isinstance(st, ast.Break):
            n = self._new("stmt", st)
            self._connect(frontier, n)
            if self._loops:
                self._edge(n, self._loops[-1][1], "break")
            return []
        if isinstance(st, ast.Continue):
            n = self._new("stmt", st)
            self._connect(frontier, n)
            if self._loops:
                self._edge(n, self._loops[-1][0], "back")
            return []
        if isinstance(st, ast.Return):
            n = self._new("stmt", st)
            self._connect(frontier, n)
            self._edge(n, self.exit, "return")
            return []
        if isinstance(st, ast.Raise):
            n = self._new("stmt", st)
            self._connect(frontier, n)
            self._edge(n, self.raise_exit, "raise")
            return []
        if isinstance(st, ast.With):
            n = self._new("stmt", st)
            self._connect(frontier, n)
            return self._block(st.body, [(n, None)])
        if isinstance(st, ast.Try):
            n = self._new("join", st)
            self._connect(frontier, n)
            body_end = self._block(st.body, [(n, None)])
            ends = list(body_end)
            for h in st.handlers:
                ends += self._block(h.body, [(n, "exc")])
            if st.orelse:
                ends = self._block(st.orelse, body_end) + [e for e in ends if e not in body_end]
            if st.finalbody:
                ends = self._block(st.finalbody, ends)
            return ends
        n = self._new("stmt", st)
        self._connect(frontier, n)
        return [(n, None)]

    # ------------------------------------------------------------------
    def find(self, pred: Callable[[Node], bool]) -> List[Node]:
        return [n for n in self.nodes if pred(n)]

    def reachable(self, src: Node, blocked: Callable[[Node], bool] = lambda n: False,
                  edge_ok: Callable[[Node, Node, Optional[str]], bool] = lambda a, b, l: True) -> Set[int]:
        seen = set()
        stack = [src]
        while stack:
            n = stack.pop()
            for m, lab in n.succ:
                if m.id in seen or blocked(m) or not edge_ok(n, m, lab):
                    continue
                seen.add(m.id)
                stack.append(m)
        return seen

    def must_pass_through(self, src: Node, dst: Node, via: Callable[[Node], bool]) -> bool:
        """every path src ->+ dst contains a node satisfying `via` (strictly between)"""
        return dst.id not in self.reachable(src, blocked=lambda n: via(n) and n is not dst)

    def path_avoiding(self, src: Node, dst: Node, via: Callable[[Node], bool],
                      edge_ok: Callable[[Node, Node, Optional[str]], bool] = lambda a, b, l: True) -> Optional[List[Node]]:
        """a path src ->+ dst that avoids `via` nodes (witness), or None"""
        prev: Dict[int, Node] = {}
        stack = [src]
        seen = {src.id}
        while stack:
            n = stack.pop()
            for m, lab in n.succ:
                if not edge_ok(n, m, lab):
                    continue
                if m is dst:
                    path = [m, n]
                    while path[-1] is not src:
                        path.append(prev[path[-1].id])
                    return list(reversed(path))
                if m.id in seen or via(m):
                    continue
                seen.add(m.id)
                prev[m.id] = n
                stack.append(m)
        return None


def calls_in(node: Node) -> List[ast.Call]:
    if node.ast is None:
        return []
    if node.kind in ("test", "whilehead"):
        root = node.ast.test
    elif node.kind == "forhead":
        root = node.ast.iter
    elif isinstance(node.ast, (ast.With,)):
        root = ast.Module(body=[ast.Expr(i.context_expr) for i in node.ast.items], type_ignores=[])
    elif node.kind == "join":
        return []
    else:
        root = node.ast
    return [n for n in ast.walk(root) if isinstance(n, ast.Call)]


def call_name(c: ast.Call) -> str:
    try:
        return ast.unparse(c.func)
    except Exception:
        return ""


def has_call(node: Node, suffix: str) -> bool:
    return any(call_name(c).endswith(suffix) for c in calls_in(node))


def assigned_names(node: Node) -> List[str]:
    out = []
    st = node.ast
    if node.kind != "stmt" or st is None:
        if node.kind == "forhead":
            return [n.id for n in ast.walk(st.target) if isinstance(n, ast.Name)]
        return out
    targets = []
    if isinstance(st, ast.Assign):
        targets = st.targets
    elif isinstance(st, (ast.AugAssign, ast.AnnAssign)):
        targets = [st.target]
    for t in targets:
        for n in ast.walk(t):
            if isinstance(n, ast.Name) and isinstance(n.ctx, ast.Store):
                out.append(n.id)
            elif isinstance(n, ast.Attribute) and isinstance(n.ctx, ast.Store):
                out.append(ast.unparse(n))
    return out


def forward_must(cfg: CFG, init: frozenset, transfer: Callable[[Node, frozenset], frozenset],
                 edge_transfer: Callable[[Node, Optional[str], frozenset], frozenset] = lambda n, l, f: f) -> Dict[int, frozenset]:
    """forward must-analysis: facts[n] = facts that hold on every path at the entry of n"""
    TOP = None
    facts: Dict[int, Optional[frozenset]] = {n.id: TOP for n in cfg.nodes}
    facts[cfg.entry.id] = init
    work = [cfg.entry]
    while work:
        n = work.pop()
        out = transfer(n, facts[n.id])
        for m, lab in n.succ:
            f = edge_transfer(n, lab, out)
            old = facts[m.id]
            new = f if old is TOP else (old & f)
            if new != old:
                facts[m.id] = new
                work.append(m)
    return {k: (v if v is not None else frozenset()) for k, v in facts.items()}


def strip_not(test: ast.AST):
    """(core test, polarity): `not X` -> (X, False); `a not in b` -> (`a in b`, False); `a is not b` -> (`a is b`, False);
    `a != b` -> (`a == b`, False).  Lets path rules treat `if not c: B else: A` like `if c: A else: B`."""
    pos = True
    while True:
        if isinstance(test, ast.UnaryOp) and isinstance(test.op, ast.Not):
            test, pos = test.operand, not pos
            continue
        if isinstance(test, ast.Compare) and len(test.ops) == 1 and isinstance(test.ops[0], (ast.NotIn, ast.IsNot, ast.NotEq)):
            op = {ast.NotIn: ast.In, ast.IsNot: ast.Is, ast.NotEq: ast.Eq}[type(test.ops[0])]()
            test, pos = ast.Compare(left=test.left, ops=[op], comparators=test.comparators), not pos
            continue
        return test, pos


def test_key(node: "Node"):
    """(normalised source of the positive core of a test node, polarity)"""
    core, pos = strip_not(node.ast.test)
    return ast.unparse(core).replace(" ", ""), pos


def taken(node: "Node", label: str, want_core_true: bool = True) -> bool:
    """does the edge `label` ('T' / 'F') of this test node correspond to its positive core being `want_core_true`?"""
    _, pos = test_key(node)
    return (label == "T") == (pos == want_core_true)
