"""Configuration domains and the replay oracle used by the extractor (E2).

A *configuration atom* is a python-level test over static data of the element
being built (its pydantic fields, method parameters, module globals): e.g.
``self.kind == "lax"``, ``self.time_interval is not None``, ``self.offset > 0``,
``isinstance(self.resource, Worker)``, ``self.optional``.

Each such leaf has a finite abstract domain; deciding an atom refines the
domain, and an atom whose truth is not fixed by the domain forks the path.
Forking is done by *replay*: the extractor re-runs the function with a decision
prefix and explores the alternative of the last open decision (DFS).
Closed boolean evaluation over literals - no solver.
"""
from __future__ import annotations

from dataclasses import dataclass, field
from typing import Dict, List, Optional, Set, Tuple

from .terms import show


@dataclass
class Dom:
    """abstract value of one static leaf"""
    can_none: bool = False
    can_value: bool = True             # can be something else than None
    vals: Optional[Set] = None         # finite set of non-None python values, None = unknown/infinite
    lo: Optional[int] = None           # integer interval of the non-None value
    hi: Optional[int] = None
    is_int: bool = False
    classes: Optional[Set[str]] = None  # possible concrete classes of the non-None value

    def copy(self):
        return Dom(self.can_none, self.can_value, None if self.vals is None else set(self.vals), self.lo, self.hi,
                   self.is_int, None if self.classes is None else set(self.classes))

    def singleton(self):
        """the single python value this leaf can have, as ('ok', v), else None"""
        if self.can_none and not self.can_value:
            return ("ok", None)
        if self.can_none:
            return None
        if self.vals is not None and len(self.vals) == 1:
            return ("ok", next(iter(self.vals)))
        if self.is_int and self.lo is not None and self.lo == self.hi:
            return ("ok", self.lo)
        return None

    def describe(self):
        parts = []
        if self.can_none and not self.can_value:
            return "None"
        if self.vals is not None:
            parts.append("{" + ",".join(sorted(repr(v) for v in self.vals)) + "}")
        elif self.is_int:
            parts.append(f"[{'-inf' if self.lo is None else self.lo},{'+inf' if self.hi is None else self.hi}]")
        if self.classes is not None:
            parts.append("<" + "|".join(sorted(self.classes)) + ">")
        if not parts:
            parts.append("notNone" if not self.can_none else "any")
        if self.can_none:
            parts.append("|None")
        return "".join(parts)


class Infeasible(Exception):
    pass


class PathOracle:
    """decision vector for one replay"""

    def __init__(self, prefix: List[bool]):
        self.prefix = list(prefix)
        self.taken: List[bool] = []
        self.keys: List[str] = []

    def decide(self, key: str) -> bool:
        i = len(self.taken)
        v = self.prefix[i] if i < len(self.prefix) else True
        self.taken.append(v)
        self.keys.append(key)
        return v


def next_prefix(taken: List[bool]) -> Optional[List[bool]]:
    """DFS successor of a completed decision vector"""
    t = list(taken)
    while t and t[-1] is False:
        t.pop()
    if not t:
        return None
    t[-1] = False
    return t


class Config:
    """domains of the static leaves along one path + the decisions that were taken"""

    def __init__(self, oracle: PathOracle):
        self.doms: Dict[tuple, Dom] = {}
        self.oracle = oracle
        self.decisions: List[Tuple[str, bool]] = []
        self.opaque: Dict[str, bool] = {}

    def dom(self, leaf, init: Dom) -> Dom:
        if leaf not in self.doms:
            self.doms[leaf] = init.copy()
        return self.doms[leaf]

    def _fork(self, key: str) -> bool:
        v = self.oracle.decide(key)
        self.decisions.append((key, v))
        return v

    # every method returns a python bool (the atom's truth on this path)
    def test_is_none(self, leaf, d: Dom) -> bool:
        if not d.can_none:
            return False
        if not d.can_value:
            return True
        v = self._fork(f"{show(leaf)} is None")
        if v:
            d.can_value = False
        else:
            d.can_none = False
        return v

    def test_eq(self, leaf, d: Dom, const) -> bool:
        if const is None:
            return self.test_is_none(leaf, d)
        if d.can_none and d.can_value:
            # first settle None-ness
            if self.test_is_none(leaf, d):
                return False
        if not d.can_value:
            return False
        if d.vals is not None:
            if const not in d.vals:
                return False
            if len(d.vals) == 1:
                return True
            v = self._fork(f"{show(leaf)} == {const!r}")
            if v:
                d.vals = {const}
            else:
                d.vals.discard(const)
            return v
        if d.is_int and isinstance(const, int) and not isinstance(const, bool):
            if (d.lo is not None and const < d.lo) or (d.hi is not None and const > d.hi):
                return False
            if d.lo is not None and d.lo == d.hi:
                return d.lo == const
            v = self._fork(f"{show(leaf)} == {const!r}")
            if v:
                d.lo = d.hi = const
            else:
                if d.lo == const:
                    d.lo = const + 1
                elif d.hi == const:
                    d.hi = const - 1
            return v
        # unknown / infinite domain: remember what the equality tests have established
        excl = getattr(d, "_excluded", None)
        if excl is None:
            excl = set()
            setattr(d, "_excluded", excl)
        try:
            if const in excl:
                return False
        except TypeError:
            return self.test_opaque(f"{show(leaf)} == {const!r}")
        v = self._fork(f"{show(leaf)} == {const!r}")
        if v:
            d.vals = {const}
        else:
            excl.add(const)
        return v

    def test_cmp(self, leaf, d: Dom, op: str, const: int) -> bool:
        """leaf <op> const for integers; op in < <= > >="""
        if d.can_none and d.can_value:
            self.test_is_none(leaf, d)   # comparing None raises in python: assume not None afterwards
            d.can_none = False
        if op == "<":
            op, const = "<=", const - 1
        elif op == ">":
            op, const = ">=", const + 1
        if op == "<=":
            if d.hi is not None and d.hi <= const:
                return True
            if d.lo is not None and d.lo > const:
                return False
            v = self._fork(f"{show(leaf)} <= {const}")
            if v:
                d.hi = const
            else:
                d.lo = const + 1
            d.is_int = True
            return v
        if op == ">=":
            if d.lo is not None and d.lo >= const:
                return True
            if d.hi is not None and d.hi < const:
                return False
            v = self._fork(f"{show(leaf)} >= {const}")
            if v:
                d.lo = const
            else:
                d.hi = const - 1
            d.is_int = True
            return v
        raise ValueError(op)

    def test_truthy(self, leaf, d: Dom) -> bool:
        if d.can_none and d.can_value:
            if self.test_is_none(leaf, d):
                return False
        if not d.can_value:
            return False
        if d.vals is not None:
            truthy = {v for v in d.vals if v}
            if not truthy:
                return False
            if len(truthy) == len(d.vals):
                return True
            v = self._fork(f"bool({show(leaf)})")
            d.vals = truthy if v else (d.vals - truthy)
            return v
        if d.is_int:
            return not self.test_eq(leaf, d, 0)
        return self.test_opaque(f"bool({show(leaf)})")

    def test_isinstance(self, leaf, d: Dom, sub: Set[str]) -> bool:
        """sub: set of concrete class names that satisfy the isinstance test"""
        if d.can_none and d.can_value:
            if self.test_is_none(leaf, d):
                return False
        if not d.can_value:
            return False
        if d.classes is None:
            return self.test_opaque(f"isinstance({show(leaf)}, {'|'.join(sorted(sub))})")
        inter = d.classes & sub
        if not inter:
            return False
        if inter == d.classes:
            return True
        v = self._fork(f"isinstance({show(leaf)}, {'|'.join(sorted(inter))})")
        d.classes = inter if v else (d.classes - inter)
        return v

    def test_opaque(self, key: str) -> bool:
        if key in self.opaque:
            return self.opaque[key]
        v = self._fork(key)
        self.opaque[key] = v
        return v

    def summary(self) -> Dict[str, str]:
        return {show(k): d.describe() for k, d in self.doms.items()}

    def key(self) -> str:
        return "; ".join(f"{k}={'T' if v else 'F'}" for k, v in self.decisions)
