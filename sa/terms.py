"""Term IR shared by the encoder-IR extractor (E2) and the normal forms (E3).

Terms are plain nested tuples (hashable, comparable):

  ('k', value)                       python constant
  ('sym', name)                      free symbol (self, a parameter, **data ...)
  ('glob', dotted)                   module level cell (processscheduler.base.active_problem)
  ('attr', base, name)               attribute read that is not resolved to a stored value
  ('z3var', sort, nameterm)          z3.Int(...)/z3.Bool(...) with its name template
  ('fresh', sort, site)              z3.FreshInt()/uuid based fresh constant
  ('app', op, a, b, ...)             z3 / arithmetic / boolean / python-level application
  ('list', (items...))               snapshot of a python list; an item may be ('each', loops, guards, v)
  ('tuple', (items...))
  ('each', loops, guards, v)         v for every iteration of `loops` (tuple of loop descriptors) where guards hold
  ('elem', loop)                     the loop variable of loop descriptor `loop`
  ('idx', seq, index)                subscription
  ('phi', guard, a, b)               a if guard else b (python level, guard not decided)
  ('fstr', (parts...))               f-string
  ('obj', clsname, site)             object constructed inside analysed code
  ('call', name, args, kwargs)       uninterpreted call result
  ('mcall', recv, name, args, kwargs)uninterpreted method call result
  ('lambda', site) / ('closure', ..) opaque callables
  ('carried', name, loop, init)      loop carried variable read at the head of a loop body
  ('loopout', name, loop, init, v)   value of a variable after a loop that assigns it
  ('unk', why)                       not understood

A loop descriptor is ('loop', id, kind, iterable_term) with kind in
for/comp/while; ids are canonicalised by `canon_loops` before comparison.
"""
from __future__ import annotations

from typing import Callable, Dict, Iterable, List, Tuple

K = lambda v: ("k", v)
TRUE = ("k", True)
FALSE = ("k", False)
NONE = ("k", None)


_NEG_CMP = {"<": ">=", "<=": ">", ">": "<=", ">=": "<", "==": "!=", "!=": "=="}


def app(op, *args):
    # python-level double negation: `not (not x)` has the truth value of x (guards and tests only see truth values)
    if op == "not" and len(args) == 1 and isinstance(args[0], tuple) and len(args[0]) == 3 and args[0][0] == "app" and args[0][1] == "not":
        return args[0][2]
    # python-level negation of a comparison is the opposite comparison (`not` is never applied to z3 terms: bool() raises)
    if op == "not" and len(args) == 1 and isinstance(args[0], tuple) and len(args[0]) == 4 and args[0][0] == "app" \
            and args[0][1] in _NEG_CMP:
        return app(_NEG_CMP[args[0][1]], args[0][2], args[0][3])
    # one spelling for the negative comparisons of python: `a is not b` is `not (a is b)`, `a not in b` is `not (a in b)`
    # one spelling for differences: a + (-b) is a - b
    if op == "+" and len(args) == 2:
        is_neg = lambda x: isinstance(x, tuple) and len(x) == 3 and x[0] == "app" and x[1] == "neg"
        if is_neg(args[1]):
            return ("app", "-", args[0], args[1][2])
        if is_neg(args[0]):
            return ("app", "-", args[1], args[0][2])
    # one orientation for equalities with a constant side: the constant goes right (`0 == x` is `x == 0`)
    if op in ("==", "!=", "is") and len(args) == 2 and isinstance(args[0], tuple) and len(args[0]) == 2 and args[0][0] == "k" \
            and not (isinstance(args[1], tuple) and len(args[1]) == 2 and args[1][0] == "k"):
        args = (args[1], args[0])
    # membership in a mapping is membership in its keys: `k in d.keys()` is `k in d`
    if op in ("in", "notin") and len(args) == 2 and isinstance(args[1], tuple) and len(args[1]) == 5 and args[1][0] == "mcall" \
            and args[1][2] == "keys" and not args[1][3] and not args[1][4]:
        args = (args[0], args[1][1])
    if op == "isnot" and len(args) == 2:
        return app("not", ("app", "is") + tuple(args))
    if op == "notin" and len(args) == 2:
        return app("not", ("app", "in") + tuple(args))
    return ("app", op) + tuple(args)


def mkphi(g, a, b):
    """(a if g else b) with a positive guard: `a if not c else b` is `b if c else a`"""
    while isinstance(g, tuple) and len(g) == 3 and g[0] == "app" and g[1] == "not":
        g, a, b = g[2], b, a
    if isinstance(g, tuple) and len(g) == 4 and g[0] == "app" and g[1] == "!=":
        g, a, b = ("app", "==", g[2], g[3]), b, a
    return ("phi", g, a, b)


def is_app(t, op=None):
    return isinstance(t, tuple) and len(t) >= 2 and t[0] == "app" and (op is None or t[1] == op)


def is_const(t):
    return isinstance(t, tuple) and len(t) == 2 and t[0] == "k"


def attr(base, name):
    return ("attr", base, name)


def path(s: str):
    """'self.task._start' -> nested attr term"""
    parts = s.split(".")
    t = ("sym", parts[0])
    for p in parts[1:]:
        t = ("attr", t, p)
    return t


def subterms(t):
    """all sub terms (pre-order), descending into every tuple"""
    stack = [t]
    while stack:
        x = stack.pop()
        if isinstance(x, tuple):
            yield x
            for c in x:
                if isinstance(c, tuple):
                    stack.append(c)


def contains(t, pred: Callable) -> bool:
    return any(pred(s) for s in subterms(t))


def rewrite(t, f: Callable):
    """bottom-up rewrite: f is applied to every rebuilt tuple node"""
    if not isinstance(t, tuple) or not t:
        return t
    new = tuple(rewrite(c, f) if isinstance(c, tuple) else c for c in t)
    if not isinstance(new[0], str):
        return new
    r = f(new)
    return new if r is None else r


def substitute(t, mapping: Dict):
    """top-down, simultaneous: a replaced sub term is not visited again"""
    if not isinstance(t, tuple) or not t:
        return t
    if t in mapping:
        return mapping[t]
    return tuple(substitute(c, mapping) if isinstance(c, tuple) else c for c in t)


# ---------------------------------------------------------------------------
# pretty printer
# ---------------------------------------------------------------------------
INFIX = {"+", "-", "*", "/", "%", "**", "<", "<=", "==", "!=", ">=", ">", "and", "or", "in", "notin", "is", "isnot"}


def show(t, depth=0) -> str:
    if depth > 40:
        return "..."
    if not isinstance(t, tuple) or not t:
        return repr(t)
    k = t[0]
    d = depth + 1
    if not isinstance(k, str):
        return "(" + ", ".join(show(a, d) if isinstance(a, tuple) else repr(a) for a in t) + ")"
    if k == "k":
        return repr(t[1])
    if k == "sym":
        return t[1]
    if k == "glob":
        return t[1]
    if k == "attr":
        return f"{show(t[1], d)}.{t[2]}"
    if k == "z3var":
        return f"{t[1]}({show(t[2], d)})"
    if k == "fresh":
        return f"Fresh{t[1]}@{t[2]}"
    if k == "app":
        op = t[1]
        args = t[2:]
        if op in INFIX and len(args) == 2:
            return f"({show(args[0], d)} {op} {show(args[1], d)})"
        if op == "neg" and len(args) == 1:
            return f"-{show(args[0], d)}"
        return f"{op}(" + ", ".join(show(a, d) for a in args) + ")"
    if k == "list":
        return "[" + ", ".join(show(a, d) for a in t[1]) + "]"
    if k == "tuple":
        return "(" + ", ".join(show(a, d) for a in t[1]) + ("," if len(t[1]) == 1 else "") + ")"
    if k == "each":
        loops = ", ".join(show_loop(l, d) for l in t[1])
        g = (" if " + " and ".join(show(x, d) for x in t[2])) if t[2] else ""
        return f"*({show(t[3], d)} for {loops}{g})"
    if k == "elem":
        return "e" + show_loop(t[1], d, short=True)
    if k == "idx":
        return f"{show(t[1], d)}[{show(t[2], d)}]"
    if k == "phi":
        return f"({show(t[2], d)} if {show(t[1], d)} else {show(t[3], d)})"
    if k == "fstr":
        return "f'" + "".join(p[1] if p[0] == "k" and isinstance(p[1], str) else "{" + show(p, d) + "}" for p in t[1]) + "'"
    if k == "obj":
        return f"<{t[1]}#{t[2]}>"
    if k == "call":
        return f"{t[1]}(" + ", ".join([show(a, d) for a in t[2]] + [f"{n}={show(v, d)}" for n, v in t[3]]) + ")"
    if k == "mcall":
        return f"{show(t[1], d)}.{t[2]}(" + ", ".join([show(a, d) for a in t[3]] + [f"{n}={show(v, d)}" for n, v in t[4]]) + ")"
    if k == "loop":
        return show_loop(t, d)
    if k == "carried":
        return f"carried:{t[1]}"
    if k == "loopout":
        return f"after-loop:{t[1]}=({show(t[4], d)} | {show(t[3], d)})"
    if k == "unk":
        return f"<?{t[1]}>"
    if k == "range":
        return f"range({show(t[1], d)}, {show(t[2], d)})"
    return "<" + k + " " + ", ".join(show(a, d) if isinstance(a, tuple) else repr(a) for a in t[1:]) + ">"


def show_loop(l, depth=0, short=False):
    if not (isinstance(l, tuple) and l and l[0] == "loop"):
        return show(l, depth)
    if short:
        return f"#{l[1]}"
    return f"e#{l[1]} in {show(l[3], depth + 1)}"


# ---------------------------------------------------------------------------
# loop id canonicalisation: ids become 0,1,2.. in order of first occurrence
# ---------------------------------------------------------------------------
def canon_loops(t):
    mapping: Dict = {}

    def visit(x):
        if not isinstance(x, tuple):
            return x
        if x and x[0] == "loop":
            key = x[1]
            it = visit(x[3])
            if key not in mapping:
                mapping[key] = len(mapping)
            return ("loop", mapping[key], x[2], it)
        return tuple(visit(c) for c in x)

    return visit(t)


def loops_of(t) -> List[tuple]:
    out = []
    for s in subterms(t):
        if s and s[0] == "loop" and s not in out:
            out.append(s)
    return out
